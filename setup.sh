#!/bin/bash
# MANIFEST.setup_cmd: build everything once from files on disk (warms the Go build cache).
set -u
cd "$(dirname "$0")"
export GOFLAGS=-mod=mod GOPROXY=off GOSUMDB=off GOTOOLCHAIN=local CGO_ENABLED=1
mkdir -p .build evidence replays
go build -tags verif ./vlib/... ./gen/... ./checks/... || exit 1
# race-instrumented standard library + harnesses
go build -race -tags verif -o /dev/null ./vlib 2>/dev/null || true
echo setup ok
