// Package txtgen generates txtar-relevant byte strings: exhaustive strings
// over a marker alphabet, random texts built from marker look-alike lines,
// and well-formed archives.
package txtgen

import (
	"bytes"
	"math/rand"
	"strings"

	xt "golang.org/x/tools/txtar"
)

// Alphabet is the marker-relevant alphabet used for exhaustive enumeration.
var Alphabet = []byte{'-', ' ', '\n', '\r', 'a', '>'}

// Count returns the number of strings of length 0..maxLen over Alphabet.
func Count(maxLen int) int64 {
	var n, p int64 = 0, 1
	for l := 0; l <= maxLen; l++ {
		n += p
		p *= int64(len(Alphabet))
	}
	return n
}

// Nth writes the idx-th string (shortlex order) into buf and returns it.
func Nth(idx int64, buf []byte) []byte {
	buf = buf[:0]
	k := int64(len(Alphabet))
	l := 0
	p := int64(1)
	for idx >= p {
		idx -= p
		p *= k
		l++
	}
	for i := 0; i < l; i++ {
		buf = append(buf, Alphabet[idx%k])
		idx /= k
	}
	return buf
}

var lineTemplates = []string{
	"-- x --", "-- y --", "--  x  --", "-- a b --", "-- x --\r", "-- x -- ", " -- x --", "--x --", "-- x--",
	"--  --", "-- --", "--", "-- ", " --", "-- -- --", "-- x", "x --", "-- x --y", ">-- x --", "-- > --",
	"", "a", "hello world", "\r", "a\r", "-", "---", "-- \r --", "-- x\r --", "-- \xff --", "\xff\xfe", "-- é --", "--\t--", "--\tx\t--", "-- \t --",
	"-- 100% --", "-- a%20b --", "-- %s --", "-- %v%d --\r", "-- x%!y --", "-- x -- \r", "-- x --\r\r", "-- -- x -- --", "-- a/b/c --", "-- ../x --", ">", ">>", "> -- x --",
	// names that are nothing but white space other than blank and tab (no marker), or padded with it
	"-- \v --", "-- \f --", "-- \u00a0 --", "-- \u0085 --", "-- \u2003 --", "-- \u3000\u00a0 --", "-- \v x \f --", "-- \u00a0x\u2003 --",
}

// RandomText builds a text of n lines from marker look-alike templates. Lines
// are terminated by LF or CRLF; the last line may lack its terminator.
func RandomText(r *rand.Rand, n int, allowCR bool) []byte {
	var b bytes.Buffer
	if r.Intn(16) == 0 {
		// what some editors put at the very start of a file: ordinary bytes to a txtar parser
		b.WriteString([]string{"\xef\xbb\xbf", "\xef\xbb\xbf", "\xff\xfe", "\xef\xbb", "\x00"}[r.Intn(5)])
	}
	for i := 0; i < n; i++ {
		var line string
		switch r.Intn(10) {
		case 0:
			k := r.Intn(12)
			bs := make([]byte, k)
			for j := range bs {
				bs[j] = Alphabet[r.Intn(len(Alphabet))]
				if bs[j] == '\n' {
					bs[j] = 'a'
				}
			}
			line = string(bs)
		case 1:
			k := r.Intn(6)
			bs := make([]byte, k)
			for j := range bs {
				bs[j] = byte(r.Intn(256))
				if bs[j] == '\n' {
					bs[j] = 'b'
				}
			}
			line = string(bs)
		default:
			line = lineTemplates[r.Intn(len(lineTemplates))]
		}
		if r.Intn(400) == 0 {
			// now and then a line as long as, or longer than, the buffers a line-oriented
			// helper is likely to use (bufio: 4096), optionally ending in a marker look-alike
			k := []int{4080, 4094, 4095, 4096, 4097, 8192, 70000}[r.Intn(7)]
			line = strings.Repeat("L", k) + []string{"", " --", "-- x --"}[r.Intn(3)]
			if r.Intn(4) == 0 {
				line = "-- " + strings.Repeat("n", k) + " --"
			}
		}
		if !allowCR {
			line = string(bytes.ReplaceAll([]byte(line), []byte("\r"), []byte("c")))
		}
		b.WriteString(line)
		last := i == n-1
		switch {
		case last && r.Intn(3) == 0:
		case allowCR && r.Intn(4) == 0:
			b.WriteString("\r\n")
		default:
			b.WriteString("\n")
		}
	}
	return b.Bytes()
}

// hasMarkerRef reports whether data contains a marker line according to the
// reference parser (golang.org/x/tools/txtar), for CR-free data.
func hasMarkerRef(data []byte) bool {
	a := xt.Parse(data)
	return len(a.Files) > 0
}

func wfText(r *rand.Rand) []byte {
	n := r.Intn(5)
	if n == 0 {
		return nil
	}
	for {
		t := RandomText(r, n, r.Intn(2) == 0)
		if len(t) > 0 && t[len(t)-1] != '\n' {
			t = append(t, '\n')
		}
		// marker free by the reference parser; with CRs also reject anything
		// that looks like a marker once a CR before LF is dropped.
		chk := bytes.ReplaceAll(t, []byte("\r\n"), []byte("\n"))
		if hasMarkerRef(t) || hasMarkerRef(chk) {
			continue
		}
		return t
	}
}

var names = []string{"a", "b.txt", "dir/file", "a b", "x--y", "-- z", "é", "a -- b", "-", "--", "n\tm", "name with  spaces", "../up", "/abs", "a\rb",
	// names that mean something to a formatter or a shell
	"100%", "a%20b.txt", "%s", "x%dy", "%!v(MISSING)", "%%", "{{.}}", "$HOME", "a\\nb", "\x00", "\xff\xfe", strings.Repeat("n", 300)}

// WellFormed returns a well-formed archive in the sense of property C03:
// trimmed non-empty names without newline, contents empty or
// newline-terminated and free of marker lines.
func WellFormed(r *rand.Rand) *xt.Archive {
	a := &xt.Archive{}
	a.Comment = wfText(r)
	nf := r.Intn(5)
	for i := 0; i < nf; i++ {
		a.Files = append(a.Files, xt.File{Name: names[r.Intn(len(names))], Data: wfText(r)})
	}
	return a
}
