// Package payload generates regenerable, self-describing byte strings.
package payload

import (
	"crypto/sha256"
	"encoding/binary"
	"fmt"
)

// Make returns size bytes determined by (tag, seed): a readable header
// followed by a keyed pseudo-random stream.
func Make(tag string, seed int64, size int) []byte {
	if size <= 0 {
		return []byte{}
	}
	b := make([]byte, 0, size+32)
	b = append(b, fmt.Sprintf("%s|%d|%d|", tag, seed, size)...)
	var ctr uint64
	key := sha256.Sum256([]byte(fmt.Sprintf("%s/%d", tag, seed)))
	for len(b) < size {
		var blk [40]byte
		copy(blk[:32], key[:])
		binary.LittleEndian.PutUint64(blk[32:], ctr)
		h := sha256.Sum256(blk[:])
		b = append(b, h[:]...)
		ctr++
	}
	return b[:size]
}
