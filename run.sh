#!/bin/bash
# ./run.sh <ID> quick|thorough [extra args]   — rebuilds the check for property <ID>
# from /repo's current working tree (hooks on: -tags verif) and runs it.
# VERIF_REPO=<dir> redirects the module replacement to a scratch copy (mutant validation).
set -u
cd "$(dirname "$0")"
export GOFLAGS=-mod=mod GOPROXY=off GOSUMDB=off GOTOOLCHAIN=local CGO_ENABLED=1
ID="${1:?usage: run.sh <ID> quick|thorough}"; shift
TIER="${1:-quick}"
lc=$(echo "$ID" | tr 'A-Z' 'a-z')
[ -d "checks/$lc" ] || { echo "no such check: $ID" >&2; exit 2; }
B="${VERIF_DIR:-$PWD}/.build/$ID"; mkdir -p "$B"   # runs redirected with VERIF_DIR (mutant / seed validation) build apart
MODFLAG=()
if [ -n "${VERIF_REPO:-}" ] && [ "${VERIF_REPO}" != "/repo" ]; then
  sed "s#=> /repo#=> ${VERIF_REPO}#" go.mod > "$B/go.alt.mod"; cp go.sum "$B/go.alt.sum"
  MODFLAG=(-modfile="$B/go.alt.mod")
fi
RACE=()
case "$ID" in
  C04|C06|C07|C09|C10|C11|C17|C20) RACE=(-race) ;;
esac
if [ -f "checks/$lc/build.sh" ]; then
  # per-check extra binaries (helpers, cmd/* tools, non-race twins)
  . "checks/$lc/build.sh" || { echo "INCONCLUSIVE property=$ID build of helpers failed"; exit 3; }
fi
if ! go build "${MODFLAG[@]}" -tags verif "${RACE[@]}" -o "$B/check" "./checks/$lc" 2> "$B/build.log"; then
  cat "$B/build.log" >&2
  echo "INCONCLUSIVE property=$ID harness does not build against the tree under test"
  exit 3
fi
export VERIF_BUILD="$B" VERIF_SRC="$PWD" VERIF_MODFLAG="${MODFLAG[*]}"
exec "$B/check" "$TIER" "$@"
