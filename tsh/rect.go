package tsh

import (
	"fmt"
	"runtime"
	"strings"
	"sync"

	"github.com/rogpeppe/go-internal/testscript"

	"verif/vlib"
)

// Style selects how FailNow/Skip leave the test function.
type Style int

const (
	StylePanic  Style = iota // sentinel panic recovered in Run (what cmd/testscript does)
	StyleGoexit              // runtime.Goexit in a goroutine of its own (what package testing does)
)

type exitSentinel struct{ skip bool }

// RecT is a recording implementation of testscript.T.
type RecT struct {
	Name    string
	style   Style
	verbose bool
	// Parallel mode: subtests that call Parallel are suspended until the
	// parent's function has returned (as package testing does) and then run
	// concurrently.
	parallel      bool
	childParallel bool // the T handed to the function of Run gets parallel = childParallel

	mu       sync.Mutex
	logs     []string
	Failed   bool
	Skipped  bool
	Finished bool
	EndMono  int64 // CLOCK_MONOTONIC when the subtest function was left
	Subs     []*RecT

	parent  *RecT
	release chan struct{} // closed when paused parallel subtests may continue
	wg      sync.WaitGroup
}

// NewRoot returns a root T. root.Run(name, f) runs f to completion with a T whose
// own subtests, when parallel is set, pause in Parallel() until that T's
// Release is called (after f - i.e. RunT - has returned, as package testing
// does) and then run concurrently; with parallel=false every subtest runs to
// completion inside Run.
func NewRoot(style Style, verbose, parallel bool) *RecT {
	return &RecT{Name: "root", style: style, verbose: verbose, childParallel: parallel, release: make(chan struct{})}
}

func (t *RecT) Log(args ...any) {
	t.mu.Lock()
	t.logs = append(t.logs, fmt.Sprint(args...))
	t.mu.Unlock()
}

// LogText returns everything logged on this T.
func (t *RecT) LogText() string {
	t.mu.Lock()
	defer t.mu.Unlock()
	return strings.Join(t.logs, "\n")
}

func (t *RecT) exit(skip bool) {
	if t.style == StyleGoexit {
		runtime.Goexit()
	}
	panic(exitSentinel{skip})
}

func (t *RecT) Skip(args ...any) {
	if len(args) > 0 {
		t.Log(args...)
	}
	t.mu.Lock()
	t.Skipped = true
	t.mu.Unlock()
	t.exit(true)
}

func (t *RecT) Fatal(args ...any) {
	t.Log(args...)
	t.FailNow()
}

func (t *RecT) FailNow() {
	t.mu.Lock()
	t.Failed = true
	t.mu.Unlock()
	t.exit(false)
}

func (t *RecT) Verbose() bool { return t.verbose }

// Parallel: in parallel mode the subtest pauses until the root releases it.
func (t *RecT) Parallel() {
	if t.parent != nil && t.parent.parallel {
		<-t.parent.release
	}
}

func (t *RecT) Run(name string, f func(testscript.T)) {
	sub := &RecT{Name: name, style: t.style, verbose: t.verbose, parent: t, parallel: t.childParallel, release: make(chan struct{})}
	t.mu.Lock()
	t.Subs = append(t.Subs, sub)
	t.mu.Unlock()
	body := func() {
		defer func() {
			sub.mu.Lock()
			sub.Finished = true
			sub.EndMono = vlib.MonoNow()
			sub.mu.Unlock()
		}()
		{
			defer func() {
				if e := recover(); e != nil {
					if _, ok := e.(exitSentinel); !ok || t.style != StylePanic {
						sub.mu.Lock()
						sub.Failed = true
						sub.logs = append(sub.logs, fmt.Sprintf("PANIC escaped the subtest: %v", e))
						sub.mu.Unlock()
						PanicEscapes.Add(fmt.Sprintf("%s: %v", name, e))
					}
				}
			}()
		}
		f(sub)
	}
	t.wg.Add(1)
	if t.parallel {
		go func() { defer t.wg.Done(); body() }()
		return
	}
	// sequential: always run in a goroutine of its own so that Goexit works
	done := make(chan struct{})
	go func() { defer t.wg.Done(); defer close(done); body() }()
	<-done
}

// Release lets paused parallel subtests run and waits for all subtests.
func (t *RecT) Release() {
	if t.parallel {
		close(t.release)
	}
	t.wg.Wait()
}

// Verdict of a finished subtest.
func (t *RecT) Verdict() string {
	t.mu.Lock()
	defer t.mu.Unlock()
	switch {
	case !t.Finished:
		return "unfinished"
	case t.Failed:
		return "fail"
	case t.Skipped:
		return "skip"
	}
	return "pass"
}

type escapes struct {
	mu   sync.Mutex
	list []string
}

func (e *escapes) Add(s string) { e.mu.Lock(); e.list = append(e.list, s); e.mu.Unlock() }
func (e *escapes) List() []string {
	e.mu.Lock()
	defer e.mu.Unlock()
	return append([]string{}, e.list...)
}

// PanicEscapes collects panics other than the exit sentinel that escaped a subtest.
var PanicEscapes escapes
