// Package tsh holds what the testscript checks share: the helper program that
// scripts execute (registered through the real testscript.Main, so it is a
// genuinely Main-installed command), a recording implementation of
// testscript.T, and the entry-point glue.
package tsh

import (
	"encoding/hex"
	"fmt"
	"io"
	"os"
	"os/exec"
	"os/signal"
	"strconv"
	"strings"
	"syscall"
	"time"

	"verif/vlib"
)

// HelperMain is the body of the "vhelper" command.
//
//	out TEXT...            print the words joined by blanks + newline on stdout
//	err TEXT...            the same on stderr
//	outerr O E             O on stdout, E on stderr
//	exit N [TEXT]          optional TEXT on stdout, then exit status N
//	printhex HEX           write the decoded bytes to stdout (printhexerr: to stderr)
//	cat                    copy stdin to stdout
//	argv ARGS...           print every argument hex-encoded, one per line
//	environ                print every environment entry hex-encoded, one per line
//	getenv NAME...         print NAME=<hex value> (or NAME! if unset)
//	pwd                    print the working directory
//	touch FILE...          create the files
//	mktree DIR N           create N small directories with a file each under DIR
//	sleepexit MS N         sleep MS milliseconds, exit N
//	hang [TEXT]            print TEXT, block until SIGINT/SIGQUIT/SIGKILL
//	block FILE [TEXT]      write "pid token" to FILE, print TEXT, block until SIGINT/SIGQUIT (default dispositions)
//	slowint FILE MS        like block, but on SIGINT exits only after MS milliseconds
//	trapquit FILE          write pid; on SIGQUIT record CLOCK_MONOTONIC in FILE.quit and exit 0
//	ignorequit FILE        write pid; on SIGQUIT record the time in FILE.quit and keep running
//	exitat FILE NS         write pid; exit 0 when CLOCK_MONOTONIC reaches NS
func HelperMain() {
	args := os.Args[1:]
	if len(args) == 0 {
		fmt.Fprintln(os.Stderr, "vhelper: missing sub-command")
		os.Exit(2)
	}
	switch args[0] {
	case "out":
		fmt.Println(strings.Join(args[1:], " "))
	case "err":
		fmt.Fprintln(os.Stderr, strings.Join(args[1:], " "))
	case "outerr":
		fmt.Println(args[1])
		fmt.Fprintln(os.Stderr, args[2])
	case "exit":
		n, _ := strconv.Atoi(args[1])
		if len(args) > 2 {
			fmt.Println(strings.Join(args[2:], " "))
		}
		os.Exit(n)
	case "printhex", "printhexerr":
		b, err := hex.DecodeString(args[1])
		if err != nil {
			fmt.Fprintln(os.Stderr, err)
			os.Exit(2)
		}
		if args[0] == "printhex" {
			os.Stdout.Write(b)
		} else {
			os.Stderr.Write(b)
		}
	case "printhexboth":
		// printhexboth A B: A to standard output, B to standard error
		b1, err1 := hex.DecodeString(args[1])
		b2, err2 := hex.DecodeString(args[2])
		if err1 != nil || err2 != nil {
			fmt.Fprintln(os.Stderr, err1, err2)
			os.Exit(2)
		}
		os.Stdout.Write(b1)
		os.Stderr.Write(b2)
	case "cat":
		io.Copy(os.Stdout, os.Stdin)
	case "argv":
		for _, a := range args[1:] {
			fmt.Println(hex.EncodeToString([]byte(a)))
		}
	case "environ":
		for _, e := range os.Environ() {
			fmt.Println(hex.EncodeToString([]byte(e)))
		}
	case "getenv":
		for _, n := range args[1:] {
			if v, ok := os.LookupEnv(n); ok {
				fmt.Printf("%s=%s\n", n, hex.EncodeToString([]byte(v)))
			} else {
				fmt.Printf("%s!\n", n)
			}
		}
	case "pwd":
		d, _ := os.Getwd()
		fmt.Println(d)
	case "touch":
		for _, f := range args[1:] {
			if err := os.WriteFile(f, nil, 0o666); err != nil {
				fmt.Fprintln(os.Stderr, err)
				os.Exit(1)
			}
		}
	case "mktree":
		// mktree DIR N: N small directories with a file each (makes removal of the work directory slow)
		n, _ := strconv.Atoi(args[2])
		for i := 0; i < n; i++ {
			d := fmt.Sprintf("%s/d%03d/e%d", args[1], i%50, i)
			if err := os.MkdirAll(d, 0o777); err != nil {
				fmt.Fprintln(os.Stderr, err)
				os.Exit(1)
			}
			os.WriteFile(d+"/f", []byte("x"), 0o666)
		}
	case "sleepexit":
		ms, _ := strconv.Atoi(args[1])
		n, _ := strconv.Atoi(args[2])
		time.Sleep(time.Duration(ms) * time.Millisecond)
		os.Exit(n)
	case "hang":
		// print TEXT, then block until a signal (default dispositions) ends the process
		if len(args) > 1 {
			fmt.Println(strings.Join(args[1:], " "))
		}
		signal.Reset(syscall.SIGINT, syscall.SIGQUIT)
		for {
			time.Sleep(time.Hour)
		}
	case "block":
		writePid(args[1])
		if len(args) > 2 {
			fmt.Println(strings.Join(args[2:], " "))
		}
		// default dispositions: SIGINT / SIGQUIT terminate the process
		signal.Reset(syscall.SIGINT, syscall.SIGQUIT)
		for {
			time.Sleep(time.Hour)
		}
	case "slowint":
		writePid(args[1])
		ms, _ := strconv.Atoi(args[2])
		c := make(chan os.Signal, 1)
		signal.Notify(c, syscall.SIGINT)
		<-c
		time.Sleep(time.Duration(ms) * time.Millisecond)
		// record when this process was about to be gone (checked against the end of the run that started it)
		writeAtomic(args[1]+".exit", []byte(fmt.Sprint(vlib.MonoNow())))
		os.Exit(0)
	case "trapquit":
		writePid(args[1])
		c := make(chan os.Signal, 1)
		signal.Notify(c, syscall.SIGQUIT)
		// from here on the interrupt is recorded; before, it ends the process the default way
		writeAtomic(args[1]+".ready", []byte(fmt.Sprint(vlib.MonoNow())))
		<-c
		writeAtomic(args[1]+".quit", []byte(fmt.Sprint(vlib.MonoNow())))
		os.Exit(0)
	case "ignorequit":
		writePid(args[1])
		c := make(chan os.Signal, 4)
		signal.Notify(c, syscall.SIGQUIT)
		// nothing short of SIGKILL ends this process: the polite signals are ignored as well
		signal.Ignore(syscall.SIGTERM, syscall.SIGINT, syscall.SIGHUP)
		writeAtomic(args[1]+".ready", []byte(fmt.Sprint(vlib.MonoNow())))
		first := true
		for range c {
			if first {
				writeAtomic(args[1]+".quit", []byte(fmt.Sprint(vlib.MonoNow())))
				first = false
			}
		}
	case "orphan":
		// orphan <pidfile> <mono>: start a grandchild that keeps this process's stdout and stderr
		// open until <mono>, and exit at once (the command's own process is gone, its pipes are not)
		exe, err := os.Executable()
		if err != nil {
			fmt.Fprintln(os.Stderr, err)
			os.Exit(2)
		}
		c := exec.Command(exe, "exitat", args[1], args[2])
		c.Stdout, c.Stderr = os.Stdout, os.Stderr
		if err := c.Start(); err != nil {
			fmt.Fprintln(os.Stderr, err)
			os.Exit(2)
		}
		os.Exit(0)
	case "exitat":
		writePid(args[1])
		at, _ := strconv.ParseInt(args[2], 10, 64)
		for vlib.MonoNow() < at {
			d := time.Duration(at - vlib.MonoNow())
			if d > time.Millisecond {
				d = time.Millisecond
			}
			time.Sleep(d)
		}
		os.Exit(0)
	default:
		fmt.Fprintf(os.Stderr, "vhelper: unknown sub-command %q\n", args[0])
		os.Exit(2)
	}
}

// writeAtomic: marker files are read by the harness while helpers are being stopped; a reader
// must see either no file or the complete one (a helper killed between create and write would
// otherwise leave an empty file behind).
func writeAtomic(path string, data []byte) {
	tmp := fmt.Sprintf("%s.tmp%d", path, os.Getpid())
	if os.WriteFile(tmp, data, 0o666) == nil {
		os.Rename(tmp, path)
	}
}

// Token identifies helper processes of this harness run in /proc/<pid>/cmdline checks.
func writePid(file string) {
	writeAtomic(file, []byte(fmt.Sprintf("%d %d", os.Getpid(), vlib.MonoNow())))
}

// PidAlive reports whether the process recorded in file (by writePid) still
// exists and still is a vhelper (guards against pid reuse).
func PidAlive(file string) (pid int, alive bool) {
	b, err := os.ReadFile(file)
	if err != nil {
		return 0, false
	}
	f := strings.Fields(string(b))
	if len(f) == 0 {
		return 0, false
	}
	pid, _ = strconv.Atoi(f[0])
	if pid <= 0 {
		return 0, false
	}
	if err := syscall.Kill(pid, 0); err != nil {
		return pid, false
	}
	cl, err := os.ReadFile(fmt.Sprintf("/proc/%d/cmdline", pid))
	if err != nil {
		return pid, false
	}
	if !strings.Contains(string(cl), "vhelper") {
		return pid, false
	}
	// zombies (not yet reaped by their parent) are not alive
	st, _ := os.ReadFile(fmt.Sprintf("/proc/%d/stat", pid))
	if i := strings.LastIndex(string(st), ")"); i >= 0 && len(st) > i+2 && st[i+2] == 'Z' {
		return pid, false
	}
	return pid, true
}
