package tsh

import (
	"os"
	"time"

	"github.com/rogpeppe/go-internal/testscript"

	"verif/vlib"
)

type runner struct{ f func() int }

func (r runner) Run() int { return r.f() }

// Main is the entry point of the testscript checks. The supervisor process is
// plain vlib; the child enters through the real testscript.Main with
// {"vhelper": HelperMain}, whose TestingM.Run is the check body. So the very
// same binary, copied into $PATH as "vhelper" by testscript.Main, is what the
// scripts execute, and "vhelper" is a genuinely Main-registered command.
func Main(id, level string, watchdog time.Duration, body func(r *vlib.Run)) {
	if !vlib.IsChild(id) && os.Getenv("TESTSCRIPT_COMMAND") == "" && !invokedAsHelper() {
		os.Exit(vlib.Supervise(id, level, watchdog))
	}
	testscript.Main(runner{func() int { return vlib.RunChild(id, level, body) }}, map[string]func(){
		"vhelper": HelperMain,
	})
}

func invokedAsHelper() bool {
	b := os.Args[0]
	for i := len(b) - 1; i >= 0; i-- {
		if b[i] == '/' {
			b = b[i+1:]
			break
		}
	}
	return b == "vhelper"
}
