#!/usr/bin/env python3
"""Intake of a seeded defect written by a sub-agent in /tmp/seedwt/<ID>:
verifies it independently in a fresh scratch worktree of /repo (patch applies, builds, the repository's suite still
passes except the two known offline failures, the demonstration fails with the change and passes without), then stores
it as /verif/seeded/<name>/{patch.diff, demo file(s), meta.json}.

usage: tools/seedintake.py <ID> <name> <demo-path-relative-to-worktree> '<go test args for the demo>' '<what it needs>'
"""
import os, sys, subprocess, tempfile, shutil, json, re

ID, name, demo, demoargs, needs = sys.argv[1:6]
src = os.environ.get('SEEDBASE', '/tmp/seedwt') + '/' + ID
env = dict(os.environ, GOFLAGS='-mod=mod', GOPROXY='off', GOSUMDB='off', GOTOOLCHAIN='local')
tmp = tempfile.mkdtemp(prefix='verifseedchk-')
wt = os.path.join(tmp, 'go-internal')
ok = True
log = []
def run(cmd, cwd=wt, **kw):
    r = subprocess.run(cmd, cwd=cwd, env=env, capture_output=True, text=True, errors='replace', **kw)
    return r
try:
    subprocess.run(['git', '-C', '/repo', 'worktree', 'add', '--detach', '-q', wt], check=True)
    patch = os.path.join(src, 'patch.diff')
    r = run(['git', 'apply', patch])
    if r.returncode != 0:
        print('PATCH DOES NOT APPLY', r.stderr); sys.exit(1)
    changed = run(['git', 'diff', '--name-only']).stdout.split()
    if any(f.endswith('_test.go') for f in changed):
        print('patch touches test files', changed); sys.exit(1)
    r = run(['go', 'build', './...'])
    if r.returncode != 0:
        print('DOES NOT BUILD', r.stderr[-500:]); sys.exit(1)
    r = run(['go', 'vet', './...'])
    log.append('go vet: exit %d' % r.returncode)
    # existing suite with the change
    r = run(['go', 'test', '-vet=off', '-count=1', '-json', '-timeout', '20m', './...'])
    fails = set()
    for l in r.stdout.splitlines():
        try:
            e = json.loads(l)
        except Exception:
            continue
        if e.get('Action') == 'fail' and e.get('Test'):
            fails.add(e['Package'].split('go-internal/')[-1] + '::' + e['Test'])
    known = {'gotooltest::TestSimple', 'gotooltest::TestSimple/cover', 'cmd/testscript::TestScripts', 'cmd/testscript::TestScripts/env_var_with_go'}
    extra = fails - known
    log.append('suite with change: failing tests beyond the 2 known offline ones: %s' % sorted(extra))
    if extra:
        ok = False
    # demo with the change
    for f in demo.split(','):
        os.makedirs(os.path.dirname(os.path.join(wt, f)), exist_ok=True)
        if os.path.isdir(os.path.join(src, f)):
            shutil.copytree(os.path.join(src, f), os.path.join(wt, f))
        else:
            shutil.copy(os.path.join(src, f), os.path.join(wt, f))
    rw = run(['go', 'test', '-vet=off', '-count=1'] + demoargs.split())
    log.append('demo WITH change: exit %d' % rw.returncode)
    run(['git', 'apply', '-R', patch])
    ro = run(['go', 'test', '-vet=off', '-count=1'] + demoargs.split())
    log.append('demo WITHOUT change: exit %d' % ro.returncode)
    if rw.returncode == 0 or ro.returncode != 0:
        ok = False
        log.append('demo output with change (tail): ' + (rw.stdout + rw.stderr)[-600:])
        log.append('demo output without change (tail): ' + (ro.stdout + ro.stderr)[-600:])
    print('\n'.join(log))
    if not ok:
        print('REJECTED'); sys.exit(1)
    dst = os.path.join('/verif/seeded', name)
    os.makedirs(dst, exist_ok=True)
    shutil.copy(patch, os.path.join(dst, 'patch.diff'))
    for f in demo.split(','):
        if os.path.isdir(os.path.join(src, f)):
            shutil.copytree(os.path.join(src, f), os.path.join(dst, 'demo', f), dirs_exist_ok=True)
        else:
            os.makedirs(os.path.dirname(os.path.join(dst, 'demo', f)), exist_ok=True)
            # stored with a suffix so that it is not compiled as part of /verif
            shutil.copy(os.path.join(src, f), os.path.join(dst, 'demo', f + '.txt'))
    meta = {'property': ID, 'name': name, 'needs_to_manifest': needs,
            'written_by': 'independent sub-agent given only the property text and a scratch worktree',
            'demo': {'files': demo.split(','), 'command': 'go test -vet=off -count=1 ' + demoargs, 'note': 'demo files are stored with a .txt suffix; copy them back into a worktree of /repo without the suffix'},
            'verified': log, 'changed_files': changed}
    json.dump(meta, open(os.path.join(dst, 'meta.json'), 'w'), indent=1)
    print('KEPT as', dst)
finally:
    subprocess.run(['git', '-C', '/repo', 'worktree', 'remove', '--force', wt], capture_output=True)
    shutil.rmtree(tmp, ignore_errors=True)
    subprocess.run(['git', '-C', '/repo', 'worktree', 'prune'])
