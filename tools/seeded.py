#!/usr/bin/env python3
"""Runs the registered checks against the independently written seeded defects kept in /verif/seeded/<name>/.

usage: tools/seeded.py [-t quick|thorough] [name ...]
Each seeded/<name>/ holds patch.diff (library change), the demonstration, and meta.json ({"property": "Cxx", ...}).
The patch is applied to a scratch worktree of /repo (outside /repo and /verif, removed afterwards) and the check of the
property is run with VERIF_REPO pointing at it. Appends one line per run to seeded/RESULTS.txt.
"""
import os, sys, subprocess, tempfile, shutil, time, json

HERE = os.path.dirname(os.path.abspath(__file__))
VERIF = os.path.dirname(HERE)

def main():
    args = sys.argv[1:]
    tier = 'quick'
    if args[:1] == ['-t']:
        tier = args[1]; args = args[2:]
    names = args or sorted(d for d in os.listdir(os.path.join(VERIF, 'seeded')) if os.path.isdir(os.path.join(VERIF, 'seeded', d)))
    env = dict(os.environ, GOFLAGS='-mod=mod', GOPROXY='off', GOSUMDB='off', GOTOOLCHAIN='local')
    for name in names:
        d = os.path.join(VERIF, 'seeded', name)
        meta = json.load(open(os.path.join(d, 'meta.json')))
        props = meta.get('checks') or [meta['property']]
        tmp = tempfile.mkdtemp(prefix='verifseed-')
        repo = os.path.join(tmp, 'go-internal')
        try:
            subprocess.run(['git', '-C', '/repo', 'worktree', 'add', '--detach', '-q', repo], check=True)
            a = subprocess.run(['git', '-C', repo, 'apply', os.path.join(d, 'patch.diff')], capture_output=True, text=True)
            if a.returncode != 0:
                report(name, props[0], tier, 'STALE', a.stderr.strip()[:200], 0); continue
            b = subprocess.run(['go', 'build', './...'], cwd=repo, env=env, capture_output=True, text=True)
            if b.returncode != 0:
                report(name, props[0], tier, 'NOBUILD', b.stderr[-200:], 0); continue
            for prop in props:
                out = os.path.join(tmp, 'verif-out-' + prop); os.makedirs(out)
                shutil.copy(os.path.join(VERIF, 'known_findings.txt'), out)
                e = dict(env, VERIF_REPO=repo, VERIF_DIR=out)
                t0 = time.time()
                r = subprocess.run([os.path.join(VERIF, 'run.sh'), prop, tier], env=e, capture_output=True, text=True, errors='replace', cwd=VERIF)
                dt = time.time() - t0
                lines = r.stdout.splitlines()
                first = ''
                for i, l in enumerate(lines):
                    if l.startswith('VIOLATION'):
                        first = ' | '.join(x.strip() for x in lines[i+1:i+3])[:240]; break
                if r.returncode == 1 and 'VIOLATION property=' + prop in r.stdout:
                    st = 'CAUGHT'
                elif r.returncode == 3:
                    st = 'INCONCLUSIVE'; first = ([l for l in lines if l.startswith('INCONCLUSIVE')] or [''])[0][:240]
                else:
                    st = 'MISSED'; first = 'exit=%d %s' % (r.returncode, (lines or [''])[-1][:200])
                report(name, prop, tier, st, first, dt)
        finally:
            subprocess.run(['git', '-C', '/repo', 'worktree', 'remove', '--force', repo], capture_output=True)
            shutil.rmtree(tmp, ignore_errors=True)
            subprocess.run(['git', '-C', '/repo', 'worktree', 'prune'])

def report(name, prop, tier, st, info, dt):
    line = '%-6s %-28s %s %-12s %6.1fs  %s' % (time.strftime('%H:%M'), name, prop, st, dt, info.replace('\n', ' '))
    print(line, flush=True)
    with open(os.path.join(VERIF, 'seeded', 'RESULTS.txt'), 'a') as f:
        f.write('%s tier=%s %s\n' % (time.strftime('%Y-%m-%d'), tier, line))

main()
