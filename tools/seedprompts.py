#!/usr/bin/env python3
"""tools/seedprompts.py <base> [ID...]  - prepares a round of seeded-defect agents.

For every property (or the given ids) it creates a scratch worktree <base>/<ID> of /repo and writes
<base>/prompts/<ID>.txt. A prompt holds the text of ONE property and a one-line description of every
change already kept for it (from seeded/*/meta.json), so that the next agent goes somewhere else.
Nothing from /verif except those one-liners reaches the agent.
"""
import glob, json, os, subprocess, sys

base = sys.argv[1]
ids = sys.argv[2:]
props = [json.loads(l) for l in open('/verif/properties.jsonl') if l.strip()]
os.makedirs(base + '/prompts', exist_ok=True)
earlier = {}
for m in sorted(glob.glob('/verif/seeded/*/meta.json')):
    d = json.load(open(m))
    name = d['name']
    desc = name.split('-', 1)[1].replace('-', ' ') if '-' in name else name
    earlier.setdefault(d['property'], []).append('%s (needs: %s)' % (desc, d.get('needs_to_manifest', '?')))

for p in props:
    pid = p['id']
    if ids and pid not in ids:
        continue
    wt = '%s/%s' % (base, pid)
    if not os.path.isdir(wt):
        subprocess.check_call(['git', '-C', '/repo', 'worktree', 'add', '--detach', '-q', wt])
    a = p['anchors']
    mech = '; '.join('%s (%s)' % (m['name'], m['where']) for m in a.get('mechanism', []))
    prev = earlier.get(pid, [])
    prevtxt = '; '.join('(%d) %s' % (i + 1, t) for i, t in enumerate(prev))
    txt = f"""You are helping to test a verification harness by writing a realistic BUG (a seeded defect). Work ONLY inside the scratch git worktree {wt} (a checkout of the Go library rogpeppe/go-internal). Never touch /repo or /verif and do not read anything under /verif.

Environment: offline sandbox, Go 1.23. Prefix every go command with: export GOFLAGS=-mod=mod GOPROXY=off GOSUMDB=off GOTOOLCHAIN=local

The property that your change must BREAK (title, statement, what it quantifies over, and where it is anchored in the code):

TITLE: {p['title']}
STATEMENT: {p['statement']}
QUANTIFIER: {p['quantifier']['text']}
ANCHOR FILES: {', '.join(a['files'])}
MECHANISMS: {mech}

IMPORTANT: other engineers have already produced seeded bugs that concern: {prevtxt}. Yours must use a DIFFERENT mechanism and a different place in the code (ideally a different function), must need a different kind of trigger, and - if the statement has several clauses - should preferably break a clause those did not touch. Also unwanted because they were used too often: sync.Pool / buffer reuse, appending to a caller's slice, bufio size limits (ReadSlice / ReadLine / Scanner), "fast paths" for short inputs, strings.TrimRight-style over-trimming, dropped tokens of a fixed list. The change must break the property AS STATED (the behaviour of the anchored functions themselves), not merely a caller of them.

Your task:
1. Read the anchored code. Make ONE small, realistic change to the library's non-test source (the kind of mistake a maintainer could plausibly commit: a wrong condition, a dropped step, a reordered pair of operations, an off-by-one, a missing lock, an error path that forgets a clean-up, a refactoring that is not quite equivalent) so that the property above no longer holds.
2. The change MUST still compile and the EXISTING test suite must still pass: run `go test -vet=off -count=1 ./...` for the whole module (note: ./gotooltest TestSimple/cover and ./cmd/testscript TestScripts/env_var_with_go fail even on the unchanged tree because there is no network - ignore those two, and only those two).
3. The bug must need something SPECIFIC to manifest - a particular interleaving, a crash or fault at a particular point, a multi-step sequence of operations, an unusual input or environment, or two cooperating sites that each look fine alone. It must NOT be something that ordinary use (or the existing tests) would expose at once. Prefer subtle over blatant.
4. Write a DEMONSTRATION that fails with your change and passes without it: a new Go test file (name it zz_seed_demo_test.go in the relevant package directory, or a small test package under {wt}/zz_seed_demo/) - it may use loops/goroutines/fault injection as needed but must be deterministic enough to fail reliably (>= 9 of 10 runs) with the bug and pass reliably without it. Verify BOTH directions yourself (flip the library change with `git diff -- <files> > /tmp/<something>.diff; git apply -R ...; git apply ...` while keeping the demo; do NOT use `git stash`: the stash is shared with other worktrees of the same repository and other engineers are working in those).
5. Save the library change (ONLY the non-test source change, not the demo) as {wt}/patch.diff (unified diff produced by `git diff -- <changed source files>`), leave the demo files in place, and leave the working tree WITH the change applied. Do not commit.

Reply with: the path of patch.diff, the demo file path and the exact command to run it, one paragraph on what the bug is and what it needs in order to manifest, and the outputs you observed (demo failing with the change, passing without; existing tests passing with the change).
"""
    open('%s/prompts/%s.txt' % (base, pid), 'w').write(txt)
    print(pid, len(prev), 'earlier changes')
