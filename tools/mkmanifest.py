#!/usr/bin/env python3
"""Generates /verif/MANIFEST.json from the table below (single source of truth)."""
import json, subprocess, os

CHECKS = {}   # id -> dict(level, text, note, technique, design_ref)
NA = {}       # id -> reason

def check(pid, level, technique, text, note, engine=None):
    CHECKS[pid] = dict(level=level, technique=technique, text=text, note=note, engine=engine)

exec(open(os.path.join(os.path.dirname(__file__), 'manifest_table.py')).read())

hook_commits = [l.split()[0] for l in subprocess.run(
    ['git', '-C', '/repo', 'log', '--format=%h %s'], capture_output=True, text=True).stdout.splitlines()
    if 'verif hooks' in l]

all_ids = ['C%02d' % i for i in range(1, 21)]
m = {
    "version": 1,
    "setup_cmd": "./setup.sh",
    "hooks": {
        "guard": "verif",
        "enable": "go build -tags verif (run.sh builds every harness with -tags verif against /repo through a replace directive); hooks are calls to internal/verifhook.At(point), empty without the tag",
        "baseline_off_cmd": "cd /repo && GOFLAGS=-mod=mod GOPROXY=off GOSUMDB=off GOTOOLCHAIN=local go test -json -vet=off -count=1 -timeout 25m ./...",
        "source_commits": hook_commits,
        "add_only": True,
    },
    "engines": [
        {"name": "vlib", "path": "vlib/", "serves_properties": sorted(CHECKS),
         "kind_free_text": "supervisor + child per check, seeds/tiers, evidence writer, replay files, known-findings matcher, cross-process monotonic clock, shared-memory words"},
    ],
    "checks": [],
    "notes": "Technique family: runtime monitoring. Every check runs the real code from /repo's working tree (-tags verif, -race where the code under test is concurrent) under generated/hostile workloads and decides with an independent oracle over what was observed. Exit 0 = held on what was observed, 1 = VIOLATION, 3 = INCONCLUSIVE (never folded into either). Known findings: /verif/known_findings.txt (read, never written, at run time): eleven 'fixed:' entries (repaired by fix: commits in /repo) and one 'open:' entry for C12 (a Put failing in its copy pass damages the output of an overlapping Put of the same bytes), for which C12 prints a KNOWN-FINDING line and exits 0.",
    "not_applicable": [],
}
for pid in all_ids:
    if pid in CHECKS:
        c = CHECKS[pid]
        m["checks"].append({
            "property_id": pid,
            "quick_cmd": "./run.sh %s quick" % pid,
            "thorough_cmd": "./run.sh %s thorough" % pid,
            "evidence_file": "/verif/evidence/%s.json" % pid,
            "replay_cmd_template": "./run.sh %s quick --replay {path}" % pid,
            "engine": c["engine"] or "vlib",
            "level_claimed": {"category": c["level"], "text": c["text"], "design_ref": "DESIGN.md §%s" % pid},
            "level_note": c["note"],
            "technique": c["technique"],
        })
    else:
        m["not_applicable"].append({"property_id": pid, "reason": NA.get(pid, "check not built yet (work in progress); see DESIGN.md")})
json.dump(m, open('/verif/MANIFEST.json', 'w'), indent=1)
print("checks:", len(m["checks"]), "not_applicable:", len(m["not_applicable"]))
