#!/bin/bash
# tools/sweep.sh <tier> <seed>...   - runs every registered check at the given seeds, sequentially,
# and prints one line per run; exit status 1 if any run did not exit 0. SWEEP_IDS="C01 C02" restricts the checks.
# Uses the directory it is started from as VERIF_DIR (so a `vp run` snapshot keeps its own evidence/.build).
cd "$(dirname "$0")/.."
export VERIF_DIR="$PWD"
tier="$1"; shift
bad=0
for seed in "$@"; do
  for id in ${SWEEP_IDS:-C01 C02 C03 C04 C05 C06 C07 C08 C09 C10 C11 C12 C13 C14 C15 C16 C17 C18 C19 C20}; do
    t0=$(date +%s)
    out=$(VERIF_SEED=$seed ./run.sh $id $tier 2>&1); rc=$?
    t1=$(date +%s)
    last=$(echo "$out" | grep -E "^$id " | tail -1)
    echo "seed=$seed $id rc=$rc $((t1-t0))s  $last"
    if [ $rc -ne 0 ]; then
      bad=1
      echo "$out" | grep -E "^(VIOLATION|INCONCLUSIVE|  key=)" | head -12 | cut -c1-400
    fi
  done
done
exit $bad
