#!/usr/bin/env python3
"""Monitor validation: apply small semantic mutants to a scratch copy of /repo and
confirm that the check of the property fires (exit 1 + VIOLATION line).

usage: tools/mutants.py [-t quick|thorough] [ID|ID:name ...]     (default: all, quick)
The scratch copy lives under a mktemp dir outside /repo and /verif and is removed.
Results are appended to mutants/RESULTS.txt (one line per run).
"""
import os, sys, subprocess, tempfile, shutil, time, re

HERE = os.path.dirname(os.path.abspath(__file__))
VERIF = os.path.dirname(HERE)
MUTANTS = []  # (prop, name, file, old, new)

def mut(prop, name, file, old, new, tier=None, more=()):
    MUTANTS.append(dict(prop=prop, name=name, file=file, old=old, new=new, tier=tier, more=list(more)))

exec(open(os.path.join(VERIF, 'mutants', 'table.py')).read())

def main():
    args = sys.argv[1:]
    tier = 'quick'
    if args[:1] == ['-t']:
        tier = args[1]; args = args[2:]
    sel = []
    for m in MUTANTS:
        tag = m['prop'] + ':' + m['name']
        if not args or m['prop'] in args or tag in args:
            sel.append(m)
    env = dict(os.environ, GOFLAGS='-mod=mod', GOPROXY='off', GOSUMDB='off', GOTOOLCHAIN='local')
    results = []
    nrep = 0
    for m in sel:
        tmp = tempfile.mkdtemp(prefix='verifmut-')
        try:
            repo = os.path.join(tmp, 'go-internal')
            subprocess.run(['git', '-C', '/repo', 'worktree', 'add', '--detach', '-q', repo], check=True)
            # carry over uncommitted changes of /repo, if any
            d = subprocess.run(['git', '-C', '/repo', 'diff', 'HEAD'], capture_output=True, text=True).stdout
            if d.strip():
                subprocess.run(['git', '-C', repo, 'apply'], input=d, text=True, check=True)
            stale = None
            for (f_, old_, new_) in [(m['file'], m['old'], m['new'])] + m['more']:
                p = os.path.join(repo, f_)
                s = open(p).read()
                if s.count(old_) != 1:
                    stale = 'pattern occurs %d times in %s' % (s.count(old_), f_); break
                open(p, 'w').write(s.replace(old_, new_))
            if stale:
                results.append((m, 'STALE', stale, 0)); continue
            b = subprocess.run(['go', 'build', './...'], cwd=repo, env=env, capture_output=True, text=True)
            if b.returncode != 0:
                results.append((m, 'NOBUILD', b.stderr[-300:], 0)); continue
            out = os.path.join(tmp, 'verif-out'); os.makedirs(out)
            shutil.copy(os.path.join(VERIF, 'known_findings.txt'), out)
            e = dict(env, VERIF_REPO=repo, VERIF_DIR=out)
            t0 = time.time()
            t = m['tier'] or tier
            r = subprocess.run([os.path.join(VERIF, 'run.sh'), m['prop'], t], env=e, capture_output=True, text=True, errors='replace', cwd=VERIF)
            dt = time.time() - t0
            first = ''
            lines = r.stdout.splitlines()
            for i, l in enumerate(lines):
                if l.startswith('VIOLATION'):
                    first = ' | '.join(x.strip() for x in lines[i+1:i+3])[:220]; break
            if r.returncode == 1 and 'VIOLATION property=' + m['prop'] in r.stdout:
                results.append((m, 'CAUGHT', first, dt))
            elif r.returncode == 3:
                # keep whatever the check left for diagnosis (goroutine dumps of stalled batches, child stderr)
                keep = os.path.join(VERIF, '.build', 'mutant-dumps', m['prop'] + '-' + m['name'])
                src = os.path.join(out, '.build', m['prop'])
                if os.path.isdir(src):
                    shutil.rmtree(keep, ignore_errors=True)
                    os.makedirs(keep, exist_ok=True)
                    for fn in os.listdir(src):
                        if fn.endswith('.txt') or fn.endswith('.stderr') or fn.endswith('.log'):
                            shutil.copy(os.path.join(src, fn), keep)
                        elif fn.startswith('death-'):
                            shutil.copytree(os.path.join(src, fn), os.path.join(keep, fn), dirs_exist_ok=True)
                inc = [l for l in lines if l.startswith('INCONCLUSIVE')][:1]
                results.append((m, 'INCONCLUSIVE', (inc or [''])[0][:220] + r.stderr[-200:], dt))
            else:
                results.append((m, 'MISSED', 'exit=%d %s' % (r.returncode, (lines or [''])[-1][:200]), dt))
        finally:
            subprocess.run(['git', '-C', '/repo', 'worktree', 'remove', '--force', os.path.join(tmp, 'go-internal')], capture_output=True)
            shutil.rmtree(tmp, ignore_errors=True)
            subprocess.run(['git', '-C', '/repo', 'worktree', 'prune'])
            if len(results) > nrep:
                report(results[-1], tier); nrep = len(results)
    bad = [r for r in results if r[1] != 'CAUGHT']
    print('%d mutants, %d caught, %d not' % (len(results), len(results) - len(bad), len(bad)))

def report(res, tier):
        m_, st, info, dt = res
        line = '%-7s %s:%-34s %-12s %5.1fs  %s' % (time.strftime('%H:%M'), m_['prop'], m_['name'], st, dt, info.replace('\n', ' '))
        print(line, flush=True)
        with open(os.path.join(VERIF, 'mutants', 'RESULTS.txt'), 'a') as f:
            f.write('%s tier=%s %s\n' % (time.strftime('%Y-%m-%d'), m_['tier'] or tier, line))

main()
