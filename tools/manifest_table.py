check("C03", "exploration",
      "runtime monitor: relational oracle (totality, re-parse fix-point, round trip, differential vs x/tools txtar, CRLF≡LF) over bounded-exhaustive + random inputs",
      "Every string over a 6-symbol marker alphabet up to length 8 (quick) / 10 (thorough), bare and after a leading line, plus random marker look-alike texts and random well-formed archives, is run through the real Parse/Format; each relation of the statement is evaluated on each execution. Held on K executions, exhaustive below the length bound.",
      "Trusted: golang.org/x/tools/txtar v0.26.0 as reference for CR-free input; Go runtime bounds checks turn memory errors into panics that the monitor catches.")
check("C14", "exploration",
      "runtime monitor: NeedsQuote compared with ground truth computed by formatting and re-parsing a one-file archive; Quote/Unquote laws evaluated directly",
      "Same bounded-exhaustive and random bodies as C03; ground truth for 'needs quoting' comes from the parser, not from the function under test. Exhaustive below the length bound.",
      "Trusted: x/tools txtar Format/Parse for CR-free bodies; this repository's Parse (itself monitored by C03) for bodies containing CR.")

check("C08", "exploration",
      "runtime monitor: independent strict unified-diff parser + exact applier (forward and reverse) as oracle over bounded-exhaustive and random text pairs; GNU patch as second applier",
      "All pairs of texts of up to 4 (quick) / 5 (thorough) lines over {a,b,empty} with and without final newline, the same short texts around 0..8 common context lines, and random long texts with many separated edits are diffed by the real code; every output is parsed strictly (header, hunk order, counts vs. bodies, start lines) and applied to old and, reversed, to new.",
      "Trusted: checks/c08/udiff.go (own parser/applier, no fuzz, no offset search); GNU patch 2.7 only as a cross-check (disagreement between the two appliers is inconclusive, not a violation).")

check("C18", "exploration",
      "runtime monitor: go/parser as reference oracle (full parse decides validity, ImportsOnly gives the import list, on the file and on the returned prefix); prefix/whole-input relations; panic and stall guards",
      "Grammar-generated Go files (BOM, comments between any tokens, grouped/named/dot/blank imports, raw and escaped strings, ';', CRLF) plus truncations at every offset, byte mutations and random bytes are fed to the real ReadImports in both modes; each execution is compared with go/parser.",
      "Trusted: go/parser of the Go 1.23 standard library. NUL bytes are a separate, always-reported error class (not a syntax error) and are excluded from the whole-input relation.")
check("C19", "exploration",
      "runtime monitor: reference evaluator written from the statement, cross-validated against go/build.Context.MatchFile / go/build/constraint on the comparable sub-domain",
      "MatchFile: all names of 1-4 segments over 8 tokens x 4 extensions x 37 tag sets (exhaustive). ShouldBuild: generated leading comment blocks x all 256 subsets of an 8-tag vocabulary for the first contents and random subsets (with and without '*') for the rest.",
      "Trusted: checks/c19 reference evaluator (the statement's rules); go/build of Go 1.23 agrees with it on every cross-validated case (disagreement would be reported as inconclusive). Negated malformed terms and malformed terms under an 'ignore' tag are asserted by the statement evaluator only (go/build/constraint maps them to the tag 'ignore').")
