check("C03", "exploration",
      "runtime monitor: relational oracle (totality, re-parse fix-point, round trip, differential vs x/tools txtar, CRLF≡LF) over bounded-exhaustive + random inputs",
      "Every string over a 6-symbol marker alphabet up to length 8 (quick) / 10 (thorough), bare and after a leading line, plus random marker look-alike texts and random well-formed archives, is run through the real Parse/Format; each relation of the statement is evaluated on each execution. Held on K executions, exhaustive below the length bound.",
      "Trusted: golang.org/x/tools/txtar v0.26.0 as reference for CR-free input; Go runtime bounds checks turn memory errors into panics that the monitor catches.")
check("C14", "exploration",
      "runtime monitor: NeedsQuote compared with ground truth computed by formatting and re-parsing a one-file archive; Quote/Unquote laws evaluated directly",
      "Same bounded-exhaustive and random bodies as C03; ground truth for 'needs quoting' comes from the parser, not from the function under test. Exhaustive below the length bound.",
      "Trusted: x/tools txtar Format/Parse for CR-free bodies; this repository's Parse (itself monitored by C03) for bodies containing CR.")
