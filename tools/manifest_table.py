check("C03", "exploration",
      "runtime monitor: relational oracle (totality, re-parse fix-point, round trip, differential vs x/tools txtar, CRLF≡LF) over bounded-exhaustive + random inputs",
      "Every string over a 6-symbol marker alphabet up to length 8 (quick) / 10 (thorough), bare and after a leading line, plus random marker look-alike texts and random well-formed archives, is run through the real Parse/Format; each relation of the statement is evaluated on each execution. Held on K executions, exhaustive below the length bound.",
      "Trusted: golang.org/x/tools/txtar v0.26.0 as reference for CR-free input; Go runtime bounds checks turn memory errors into panics that the monitor catches.")
check("C14", "exploration",
      "runtime monitor: NeedsQuote compared with ground truth computed by formatting and re-parsing a one-file archive; Quote/Unquote laws evaluated directly",
      "Same bounded-exhaustive and random bodies as C03; ground truth for 'needs quoting' comes from the parser, not from the function under test. Exhaustive below the length bound.",
      "Trusted: x/tools txtar Format/Parse for CR-free bodies; this repository's Parse (itself monitored by C03) for bodies containing CR.")

check("C08", "exploration",
      "runtime monitor: independent strict unified-diff parser + exact applier (forward and reverse) as oracle over bounded-exhaustive and random text pairs; GNU patch as second applier",
      "All pairs of texts of up to 4 (quick) / 5 (thorough) lines over {a,b,empty} with and without final newline, the same short texts around 0..8 common context lines, and random long texts with many separated edits are diffed by the real code; every output is parsed strictly (header, hunk order, counts vs. bodies, start lines) and applied to old and, reversed, to new.",
      "Trusted: checks/c08/udiff.go (own parser/applier, no fuzz, no offset search); GNU patch 2.7 only as a cross-check (disagreement between the two appliers is inconclusive, not a violation).")

check("C18", "exploration",
      "runtime monitor: go/parser as reference oracle (full parse decides validity, ImportsOnly gives the import list, on the file and on the returned prefix); prefix/whole-input relations; panic and stall guards",
      "Grammar-generated Go files (BOM, comments between any tokens, grouped/named/dot/blank imports, raw and escaped strings, ';', CRLF) plus truncations at every offset, byte mutations and random bytes are fed to the real ReadImports in both modes; each execution is compared with go/parser.",
      "Trusted: go/parser of the Go 1.23 standard library. NUL bytes are a separate, always-reported error class (not a syntax error) and are excluded from the whole-input relation.")
check("C19", "exploration",
      "runtime monitor: reference evaluator written from the statement, cross-validated against go/build.Context.MatchFile / go/build/constraint on the comparable sub-domain",
      "MatchFile: all names of 1-4 segments over 8 tokens x 4 extensions x 37 tag sets (exhaustive). ShouldBuild: generated leading comment blocks x all 256 subsets of an 8-tag vocabulary for the first contents and random subsets (with and without '*') for the rest.",
      "Trusted: checks/c19 reference evaluator (the statement's rules); go/build of Go 1.23 agrees with it on every cross-validated case (disagreement would be reported as inconclusive). Negated malformed terms and malformed terms under an 'ignore' tag are asserted by the statement evaluator only (go/build/constraint maps them to the tag 'ignore').")

check("C15", "exploration",
      "runtime monitor: before/after snapshot of a sandbox parent directory around the real txtar.Write + independent lexical name resolver; tree equality for the real txtar-c | txtar-x binaries",
      "Thousands of generated archives with hostile entry names (., .., empty, absolute, climbing out and back in, duplicates) are written into a directory that has pre-existing files and canaries beside and above it; every path that appears, disappears or changes is attributed. Generated trees are archived and extracted by the real commands built from the tree under test and compared with the membership the documented rules give.",
      "Trusted: the harness' snapshot/resolver code; x/tools txtar as marker oracle for the round-trip expectation. No symlinks inside the target directory; tree file names without newlines or leading/trailing blanks.")
check("C20", "exploration",
      "runtime monitor: expectations computed from the generated directory; archive/zip re-read of .zip responses; barrier-released concurrent first requests compared with the sequential expectation; Go race detector on the in-process server",
      "Generated module directories (case-escaped paths, /vN, +incompatible, pseudo and non-canonical versions, .txt/.txtar/dir layouts, nested and dot files) are served by the real Server; .info/.mod/.zip/list of everything stored and 404 probes for everything not stored are requested first by 16-64 goroutines at once and then sequentially.",
      "Trusted: x/tools txtar parser (what 'stored' means for archive layouts), archive/zip, net/http. Commit-hash requests are asserted only where exactly one stored version of the module has a hash. Race detector sees only the schedules that happened.")

check("C05", "exploration",
      "runtime monitor: shadow model of the store + self-consistency gates (sha256, size, not-found error kind, no panic) and payload-ownership check on every lookup of op/damage histories",
      "Histories of 30-200 operations over 6 ids and 8 size classes interleave Put/PutBytes/Get/GetBytes/GetFile/OutputFile with on-disk damage of index and output files (truncate, extend, flip, delete, replace, directory, garbage), 15 structured index-entry mutations and random bytes, and repairing Puts; every lookup result of the real cache is judged against the model and the gates.",
      "Trusted: the shadow model in checks/c05 (an entry is 'intact' iff nothing touched its index entry or its output file since the last successful Put). Crafted index entries never point to another id's existing output. Runs as root (permission faults are not part of this check).")
check("C13", "exploration",
      "runtime monitor: independent keep/remove/don't-care classification of every file from the recorded store/lookup history, evaluated after each real Trim call (virtual clock via the verif hook VerifSetNow; second workload on the real clock with mtime-simulated ages)",
      "Histories with boundary-heavy time steps (1 ns around 1 h, 5 d and 5 d + 1 h), 19 trim.txt variants and 400-day-old non-entry files; after each Trim every file is classified from its last store/lookup and compared with what is on disk; whether the trim ran is decided from trim.txt.",
      "Trusted: the classification in checks/c13; the hook only replaces the cache's clock (the package's own tests do the same). The zero-length output is created with the OS clock and is therefore exercised only in the real-clock workload.")

check("C12", "fault_enumeration",
      "runtime fault injection with strace on the unmodified binary (SIGKILL at the entry of, or an errno from, every file syscall of Put, enumerated by a dry run and confirmed from each injected run's trace), RLIMIT_FSIZE short writes, hostile ReadSeekers, random SIGKILLs; a fresh-open verifier evaluates the statement's gates after every fault",
      "Exhaustive at syscall granularity for the listed scenarios (new / overwrite / re-store with sharing entry / stale index entry / three pre-damaged outputs) and sizes: every boundary between two file operations of Put is a crash point, every operation is made to fail with the errnos that apply to it. The evidence carries the landing table (scenario x syscall x kind).",
      "Trusted: strace 6.1 injection semantics (signal delivered at syscall entry aborts the syscall; confirmed by the partial files observed); the child locks the main thread so that counts are deterministic. Process stops only: no page-cache loss. Pre-damaged scenarios assert only the checksum-verified lookups, as the statement says.")

check("C11", "exploration",
      "runtime monitor: multi-process x multi-goroutine stress on one cache directory with seeded delays at the cache.* hooks; every reader verifies regenerable self-describing payloads (hash, size, ownership); shared-memory 'Put completed' flags make 'must hit' decidable online; quiescent final sweep; Go race detector in every worker",
      "Rounds on fresh directories (first-creation races) with 3-8 processes x 4-8 goroutines over 8 identical-content and 8 differing-content ids, every fourth round with one writer SIGKILLed midway. The evidence reports operations, lookups that overlapped a Put of the same id (from the merged CLOCK_MONOTONIC op log) and hook hits per point.",
      "Trusted: payload regeneration in gen/payload; flag protocol (set after Put returned, sampled before the lookup is invoked). Interleavings are sampled, not enumerated.")

check("C06", "exploration",
      "runtime monitor: shared-memory occupancy word per lock path, updated atomically inside every critical section by every participant of every process (online, exact overlap detection); Go race detector in every worker",
      "Several processes x many goroutines acquire 2-3 lock paths through every entry point the statement names (OpenFile in three modes, Open, Create, Edit, Mutex.Lock, inside Transform's function, inside Write's reader) with dwell times and hook delays; any instant at which a writer is inside together with anyone else is seen by the atomic add itself. Evidence: acquisitions per entry point, contended acquisitions, maximum simultaneous readers (>= 2 required).",
      "Trusted: atomic operations on a MAP_SHARED page; flock semantics of the kernel are what is being observed. Interleavings are sampled.")

check("C07", "exploration",
      "offline checker over recorded client-boundary histories: porcupine linearizability check against a register model (per file), torn-content classifier, chain checker for large Transform/Read histories; plus strace errno injection / RLIMIT_FSIZE short writes / failing function on a single Transform with byte-exact before/after comparison",
      "Multi-process x multi-goroutine clients record {client, op, unique payload ids, call, return} with CLOCK_MONOTONIC around the real Read/Write/Transform (delays injected at the lockedfile hooks, slow readers via Open+ReadAll); every per-file history plus a final quiescent read is checked. Fault part: every file operation of Transform (enumerated by a dry run) is made to fail once with each applicable errno, for all old/new length relations; after an error the file must equal the old bytes, after nil the new ones.",
      "Trusted: porcupine v1.3.0; CLOCK_MONOTONIC shared by all processes; strace injection as in C12. Schedules are sampled; the fault part is exhaustive at file-operation granularity for single faults (a fault during the rollback itself would be a second fault). Level: exploration for schedules, fault enumeration for the Transform part.")

check("C09", "exploration",
      "runtime monitors inside the user function (per-item call counters, atomic in-flight gauge with high-water mark, started/finished sets, 'Do has returned' flag) + independently computed reachable closure; termination decided by the Go runtime's deadlock detector in a non-race build and by goroutine-dump classification under a workload-relative watchdog in the race build; Go race detector",
      "Tens of thousands of Do runs over generated item graphs (duplicates, self/back edges, chains, fans, trees, bursts) with n from 1 to 64, perturbation inside f at entry / between Adds / at exit, GOMAXPROCS 1/2/4/16, each batch in a child process in two builds. Evidence: runs, calls of f, distinct item start-order signatures, runs in which Adds arrived while a worker was idle.",
      "Interleavings are sampled (perturbation + GOMAXPROCS), not enumerated under a controlled scheduler as the quantifier text suggests - that is a different technique family; a bug needing one specific rare order can be missed. 'Terminates' is restated as: every sampled run terminated, and a non-terminating one yields a runtime deadlock report or an all-parked goroutine dump.")
check("C10", "exploration",
      "runtime monitors inside f (call count per key, fresh result object published in the monitor, 'completed' flag as f's last action) checked after every Do/Get; rendezvous runs turn a blocking Get into a deadlock that the runtime detects; Go race detector on the unmodified double-checked locking",
      "Hundreds of thousands of Do/Get calls by 2-32 goroutines on 1-6 keys (string / pointer / int keys, fast / slow / nested f), GOMAXPROCS 1/2/16, non-race and race builds. Evidence: Do calls that arrived while f for their key was in progress, completed rendezvous (a Get returned while f was inside).",
      "Interleavings are sampled, not enumerated. The race detector reports only unsynchronised accesses that happened in the observed executions.")

check("C02", "exploration",
      "runtime monitor: reference quoter (law: received words = spelled words), reference tokenizer/expander and environment model, compared with what a custom command (args, Getenv) and a real child process (argv, environment) observe; semantic check of ${V@R} against neighbours of the value",
      "Thousands of generated lines: words over all bytes except newline spelled in random equivalent quotings and expansion spellings, env assignment histories with re-assignments and hostile values, raw token soups against the reference tokenizer; executed by the real RunT through a recording T; the helper program is installed by the real testscript.Main.",
      "Trusted: the reference tokenizer in checks/c02 (written from the statement) and Go's regexp package. Unquoted CR may or may not split (both accepted); undocumented $ forms are not generated; @R only for valid UTF-8 values.")

check("C01", "exploration",
      "runtime monitor: reference model of the documented script language generates scripts state-aware (it knows the first failing line, the lines that run and the resulting tree); the real RunT runs them through a recording T (sentinel-panic and Goexit styles) with probe commands after every line and WorkdirRoot kept for a tree comparison; the real cmd/testscript binary runs the same scripts for the exit status",
      "Thousands of scripts over the whole documented command set (incl. background jobs, kill/wait, conditions, custom commands and conditions) with a chosen failing line and failure cause, over the Params axes ContinueOnError / RequireExplicitExec / RequireUniqueNames / custom Cmds / custom Condition; verdict, FAIL line numbers (all of them under ContinueOnError), executed-probe list and final file tree are compared with the model; exit status 0 iff no script fails for single files and batches of the standalone command.",
      "Trusted: the reference model in checks/c01/model.go (written from doc.go) and Go's regexp for pattern truth. Runs as root: permission bits are compared, not enforced. Timing-dependent lines (kill of a job that may have exited; skip/stop with jobs outstanding) are not generated. Params.Deadline (30 s) is set only as a safety net against hanging scripts.")

check("C16", "exploration",
      "runtime monitor: byte-level before/after comparison of the script file, parsed with the reference x/tools txtar parser; expected archive computed independently (only the mismatching goldens of plain cmp lines replaced; '>'-quoting decided by parser ground truth); second run without UpdateScripts",
      "Generated scripts with 2-6 goldens (plain / nested / $WORK- and ./-spelled names), actual contents from stdout, stderr and files over empty / newline-terminated / CRLF / invalid UTF-8 / no-final-newline / marker-line contents, goldens compared twice, '! cmp', matching cmpenv and outside-archive comparisons, on-disk changes of non-golden entries, dedicated scenarios whose only mismatch must not be repaired, unquotable contents.",
      "Trusted: x/tools txtar parser/formatter as reference; the expectation builder in checks/c16. Unquotable content (marker lines without final newline) only asserts that the file is not corrupted; scripts that compare one golden with different contents are exempt from the re-run rule.")
