package main

import (
	"testing"

	"verif/vlib"
)

// FuzzBody: the quoting laws of C14 as a native fuzz target.
func FuzzBody(f *testing.F) {
	for _, s := range []string{"", "-- a --\n", "x\n-- a --", ">x\n", ">>\n-- m --\n", "a\r\n-- b --\r\n"} {
		f.Add([]byte(s))
	}
	f.Fuzz(func(t *testing.T, in []byte) {
		vlib.FuzzFail = func(msg string) { t.Fatalf("%s (body %q)", msg, in) }
		checkBody(in)
	})
}
