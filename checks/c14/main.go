// C14: NeedsQuote is exact; Quote/Unquote are inverse.
// Oracle: ground truth for "needs quoting" comes from the parser itself: the
// body is stored in a one-file archive which is formatted and parsed again
// (reference x/tools parser for CR-free bodies, this repository's parser for
// bodies with CR); Quote laws are evaluated directly.
package main

import (
	"bytes"
	"encoding/hex"
	"fmt"
	"runtime"
	"sync"
	"sync/atomic"
	"time"
	"unicode/utf8"

	"github.com/rogpeppe/go-internal/txtar"
	xt "golang.org/x/tools/txtar"

	"verif/gen/txtgen"
	"verif/vlib"
)

type tcase struct {
	Kind     string `json:"kind"`
	InputHex string `json:"input_hex"`
	Input    string `json:"input_quoted"`
	Detail   string `json:"detail,omitempty"`
}

var (
	run      *vlib.Run
	kindMu   sync.Mutex
	kindSeen = map[string]int{}
)

func report(kind string, in []byte, detail string) {
	if run == nil {
		if vlib.FuzzFail != nil {
			vlib.FuzzFail(kind + ": " + detail)
		}
		return
	}
	kindMu.Lock()
	kindSeen[kind]++
	n := kindSeen[kind]
	kindMu.Unlock()
	if n > 4 {
		run.Count("suppressed_duplicate_reports_"+kind, 1)
		return
	}
	run.Violation(fmt.Sprintf("%s input=%s", kind, vlib.Q(in)),
		fmt.Sprintf("%s on body %s: %s", kind, vlib.Q(in), detail),
		tcase{Kind: kind, InputHex: hex.EncodeToString(in), Input: vlib.Q(in), Detail: detail})
}

func fixNL(d []byte) []byte {
	if len(d) == 0 || d[len(d)-1] == '\n' {
		return d
	}
	return append(append([]byte{}, d...), '\n')
}

// truthNeedsQuote: does storing d as the body of a one-file archive change the parse?
// ok=false when the ground truth itself could not be computed (parser panicked).
func truthNeedsQuote(d []byte) (needs bool, ok bool) {
	a := &xt.Archive{Files: []xt.File{{Name: "f", Data: d}}}
	f := xt.Format(a)
	var p *xt.Archive
	if bytes.IndexByte(d, '\r') < 0 {
		p = xt.Parse(f)
	} else {
		if pv, _ := vlib.Try(func() { p = txtar.Parse(f) }); pv != nil {
			return false, false
		}
	}
	if len(p.Comment) != 0 || len(p.Files) != 1 || p.Files[0].Name != "f" || !bytes.Equal(p.Files[0].Data, fixNL(d)) {
		return true, true
	}
	return false, true
}

var nNeeds, nQuoted, nRefused int64

func checkBody(d []byte) {
	run.Eval(1)
	truth, ok := truthNeedsQuote(d)
	if !ok {
		report("parser-panic-in-oracle", d, "txtar.Parse panicked on the formatted one-file archive")
		return
	}
	var got bool
	gd, gdChanged := vlib.Guarded(d)
	defer func() {
		if c := gdChanged(); c != "" {
			report("argument-modified", d, "NeedsQuote / Quote: "+c)
		}
	}()
	if pv, st := vlib.Try(func() { got = txtar.NeedsQuote(gd) }); pv != nil {
		report("needsquote-panic", d, fmt.Sprintf("panic: %v at %s", pv, vlib.RepoFrame(st)))
		return
	}
	if got != truth {
		report("needsquote-wrong", d, fmt.Sprintf("NeedsQuote=%v but storing the body in a one-file archive and re-parsing changes the archive: %v", got, truth))
	}
	if truth {
		atomic.AddInt64(&nNeeds, 1)
	}
	var q []byte
	var qerr error
	if pv, st := vlib.Try(func() { q, qerr = txtar.Quote(gd) }); pv != nil {
		report("quote-panic", d, fmt.Sprintf("panic: %v at %s", pv, vlib.RepoFrame(st)))
		return
	}
	if qerr != nil {
		atomic.AddInt64(&nRefused, 1)
		// documented reasons for refusal: no final newline, non-UTF-8. Refusing
		// data that is representable is not asserted against (the statement only
		// forbids wrong results), but it is counted.
		if len(d) > 0 && d[len(d)-1] == '\n' && utf8.Valid(d) {
			run.Count("refused_although_nl_terminated_utf8", 1)
		}
		return
	}
	atomic.AddInt64(&nQuoted, 1)
	var u []byte
	var uerr error
	gq, gqChanged := vlib.Guarded(q)
	defer func() {
		if c := gqChanged(); c != "" {
			report("argument-modified", d, "Unquote: "+c)
		}
	}()
	if pv, st := vlib.Try(func() { u, uerr = txtar.Unquote(gq) }); pv != nil {
		report("unquote-panic", d, fmt.Sprintf("panic: %v at %s", pv, vlib.RepoFrame(st)))
		return
	}
	if uerr != nil {
		report("unquote-rejects-quoted", d, fmt.Sprintf("Unquote(Quote(d)) failed: %v; quoted=%s", uerr, vlib.Q(q)))
		return
	}
	if !bytes.Equal(u, d) {
		report("unquote-quote-not-identity", d, fmt.Sprintf("Unquote(Quote(d)) = %s; quoted=%s", vlib.Q(u), vlib.Q(q)))
	}
	// the quoted form never needs quoting and survives Format/Parse unchanged
	qt, ok := truthNeedsQuote(q)
	if ok && qt {
		report("quoted-form-not-stable", d, fmt.Sprintf("quoted form %s does not survive Format/Parse as a file body", vlib.Q(q)))
	}
	var nq bool
	if pv, _ := vlib.Try(func() { nq = txtar.NeedsQuote(q) }); pv == nil && nq {
		report("quoted-form-needs-quote", d, fmt.Sprintf("NeedsQuote(Quote(d)) is true; quoted=%s", vlib.Q(q)))
	}
	// survives this repository's own Format/Parse too
	var p *xt.Archive
	if pv, _ := vlib.Try(func() {
		p = txtar.Parse(txtar.Format(&xt.Archive{Files: []xt.File{{Name: "f", Data: q}}}))
	}); pv == nil {
		if len(p.Files) != 1 || !bytes.Equal(p.Files[0].Data, q) {
			report("quoted-form-changes-in-archive", d, fmt.Sprintf("quoted form %s changes when stored with Format and read with Parse", vlib.Q(q)))
		}
	}
}

func nontrivial(in []byte) bool {
	return bytes.HasPrefix(in, []byte("-- ")) || bytes.Contains(in, []byte("\n-- "))
}

func main() {
	vlib.Main("C14", "exploration", 10*time.Minute, func(r *vlib.Run) {
		run = r
		if p := vlib.ReplayPath(); p != "" {
			var c tcase
			if err := vlib.LoadReplayCase(p, &c); err != nil {
				r.Inconclusive("cannot load replay: " + err.Error())
				return
			}
			in, _ := hex.DecodeString(c.InputHex)
			checkBody(in)
			r.DistinctBulk(2)
			return
		}
		r.Rule("file bodies: (1) every string over {'-',' ',LF,CR,'a','>'} up to the length bound, bare and prefixed with \"x\\n\"; (2) random texts of marker look-alike lines incl. a marker as last line without final newline. Non-trivial = body has a line starting with \"-- \".")
		r.Assume("ground truth for CR-free bodies is golang.org/x/tools/txtar v0.26.0 Format+Parse of a one-file archive")
		W := runtime.NumCPU()
		maxLen := r.Pick(8, 10)
		total := txtgen.Count(maxLen)
		r.Set("exhaustive_max_len", maxLen)
		r.Set("exhaustive_strings", total*2)
		const chunk = 1 << 14
		nchunks := int((total + chunk - 1) / chunk)
		var nt int64
		vlib.Parallel(nchunks, W, func(ci int) {
			buf := make([]byte, 0, 16)
			pre := make([]byte, 0, 18)
			var lnt int64
			for idx := int64(ci) * chunk; idx < int64(ci+1)*chunk && idx < total; idx++ {
				buf = txtgen.Nth(idx, buf)
				checkBody(buf)
				if nontrivial(buf) {
					lnt++
				}
				pre = append(pre[:0], 'x', '\n')
				pre = append(pre, buf...)
				checkBody(pre)
				if nontrivial(pre) {
					lnt++
				}
			}
			atomic.AddInt64(&nt, lnt)
		})
		r.DistinctBulk(nt)
		r.Sample(map[string]any{"kind": "exhaustive", "example": "x\n-- a --", "count": total * 2})
		nrand := r.Pick(100000, 3000000)
		vlib.Parallel(W, W, func(w int) {
			rng := r.Rand(fmt.Sprintf("rand-%d", w))
			for i := w; i < nrand; i += W {
				n := 1 + rng.Intn(8)
				if rng.Intn(100) == 0 {
					n = 100 + rng.Intn(1000)
				}
				in := txtgen.RandomText(rng, n, rng.Intn(3) != 0)
				checkBody(in)
				if nontrivial(in) {
					r.DistinctBytes(in)
				}
				if i < 4 {
					r.Sample(map[string]any{"kind": "random-text", "body": vlib.Q(in)})
				}
			}
		})
		// native fuzzing as an additional input generator (thorough tier): failing inputs are re-run through
		// the deterministic oracle above, which is what reports them
		if !r.Quick() {
			inputs, execs, ok := vlib.GoFuzz("checks/c14", "FuzzBody", 60*time.Second)
			r.Set("native_fuzzing", map[string]any{"target": "FuzzBody", "ran": ok, "last_progress_line": execs, "failing_inputs": len(inputs)})
			for _, args := range inputs {
				if len(args) == 1 {
					checkBody(args[0])
				}
			}
		}
		r.Set("bodies_needing_quote", atomic.LoadInt64(&nNeeds))
		r.Set("bodies_quoted_ok", atomic.LoadInt64(&nQuoted))
		r.Set("bodies_quote_refused", atomic.LoadInt64(&nRefused))
	})
}
