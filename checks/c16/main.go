// C16: UpdateScripts rewrites only the mismatching golden entries.
// Oracle: the script file is parsed with the reference x/tools txtar parser
// before and after the run; the expected archive is the original with exactly
// the mismatching golden entries of plain "cmp" lines replaced by the actual
// content (final newline added as txtar requires; '>'-quoted when the content
// has marker lines); everything else must be byte-identical. A second run
// without UpdateScripts must pass and change nothing when every updated
// content is representable as it is.
package main

import (
	"bytes"
	"encoding/hex"
	"fmt"
	"math/rand"
	"os"
	"path/filepath"
	"strings"
	"sync"
	"time"
	"unicode/utf8"

	"github.com/rogpeppe/go-internal/testscript"
	"github.com/rogpeppe/go-internal/txtar"
	xt "golang.org/x/tools/txtar"

	"verif/tsh"
	"verif/vlib"
)

type ucase struct {
	Kind   string `json:"kind"`
	Before string `json:"script_before"`
	After  string `json:"script_after"`
	Want   string `json:"expected_after"`
	Detail string `json:"detail"`
	Log    string `json:"log_tail"`
}

var (
	run      *vlib.Run
	kindMu   sync.Mutex
	kindSeen = map[string]int{}
)

func limited(kind string) bool {
	kindMu.Lock()
	defer kindMu.Unlock()
	kindSeen[kind]++
	return kindSeen[kind] > 4
}

var contents = []string{
	"", "x\n", "two\nlines\n", "hello world\n", "é ü\n", "\xff\xfe raw bytes\n", ">looks quoted\n", "tab\there\n", "a\r\nb\r\n", "\n", "\n\n", "  leading\n",
	// a line at the size of a typical line buffer, and one beyond it
	strings.Repeat("L", 4096) + "\n", "short\n" + strings.Repeat("M", 5000) + "\nend\n",
	// no final newline (representable only with the newline txtar adds)
	"no newline", "x",
	// marker lines (need quoting)
	"-- marker --\n", "a\n-- m --\nb\n", "--  spaced  --\n", "-- m --\r\n", strings.Repeat("N", 4200) + "\n-- m --\n",
}

var unquotable = []string{"-- m --", "a\n-- m --", "\xff\n-- m --\n"}

func fixNL(s string) string {
	if s == "" || strings.HasSuffix(s, "\n") {
		return s
	}
	return s + "\n"
}

// hasMarker: ground truth from the parsers (reference parser for CR-free data, the
// repository's parser - monitored by C03/C14 - for data with CR).
func hasMarker(s string) bool {
	body := fixNL(s)
	f := xt.Format(&xt.Archive{Files: []xt.File{{Name: "f", Data: []byte(body)}}})
	var p *xt.Archive
	if strings.Contains(s, "\r") {
		p = txtar.Parse(f)
	} else {
		p = xt.Parse(f)
	}
	return len(p.Files) != 1 || string(p.Files[0].Data) != body
}

func quoteRef(s string) string {
	var sb strings.Builder
	prev := byte('\n')
	for i := 0; i < len(s); i++ {
		if prev == '\n' {
			sb.WriteByte('>')
		}
		sb.WriteByte(s[i])
		prev = s[i]
	}
	return sb.String()
}

type gscript struct {
	name        string
	text        string
	expect      *xt.Archive // expected archive after the run (nil: file must be byte-identical)
	wantFail    bool
	rerunPasses bool // a second run without UpdateScripts must pass and change nothing
	unquotable  bool
	updates     int
	sig         string
	endVerdict  string // "" or the verdict an extra last line forces ("fail", "skip") after the updates were recorded
	alt         map[int]string // entry index -> content that is acceptable there as well (see gen: shadowed duplicates)
	setupCd     bool   // Params.Setup moves the script's starting directory to $WORK/startdir (as cmd/go's tests do)
}

func gen(r *rand.Rand, idx int) *gscript {
	g := &gscript{name: fmt.Sprintf("u%d", idx), setupCd: r.Intn(4) == 0}
	// ar spells the name of an archive entry as the script has to write it: entries are unpacked
	// relative to $WORK, the script may start elsewhere
	ar := func(name string) string {
		if !g.setupCd {
			return name
		}
		if r.Intn(2) == 0 {
			return "$WORK/" + name
		}
		return "../" + name
	}
	k := 2 + r.Intn(5)
	type golden struct {
		name   string
		data   string
		arname string // the entry's name as the archive spells it (a variable in it is expanded when the entry is unpacked)
	}
	spellEntry := func(name string) string {
		if r.Intn(4) == 0 {
			return "$WORK/" + name
		}
		return name
	}
	gnames := []string{"want1", "want2", "golden/out.txt", "golden/err.txt", "w3.golden", "deep/er/want", "want7"}
	r.Shuffle(len(gnames), func(i, j int) { gnames[i], gnames[j] = gnames[j], gnames[i] })
	var golds []golden
	for i := 0; i < k; i++ {
		golds = append(golds, golden{gnames[i], fixNL(contents[r.Intn(len(contents)-5)]), spellEntry(gnames[i])}) // as txtar stores it
	}
	// a data entry that is never a golden
	extra := golden{"input.txt", "input data\n", spellEntry("input.txt")}
	var sb strings.Builder
	final := map[string]string{} // golden name -> last actual recorded for update
	seenActuals := map[string]map[string]bool{}
	fileCtr := 0
	special := r.Intn(10) // 0: dedicated failing scenario; 1: unquotable content
	var kinds []string
	emitActual := func(a string) (src string) {
		h := hex.EncodeToString([]byte(a))
		switch r.Intn(3) {
		case 0:
			fmt.Fprintf(&sb, "exec vhelper printhex '%s'\n", h)
			return "stdout"
		case 1:
			fmt.Fprintf(&sb, "exec vhelper printhexerr '%s'\n", h)
			return "stderr"
		default:
			fileCtr++
			f := fmt.Sprintf("actual%d", fileCtr)
			fmt.Fprintf(&sb, "exec vhelper printhex '%s'\ncp stdout %s\n", h, f)
			return f
		}
	}
	if r.Intn(3) == 0 {
		sb.WriteString("# golden file checks\n")
	}
	allRepresentable := true
	for i, gd := range golds {
		if special == 0 {
			break
		}
		rounds := 1
		if r.Intn(4) == 0 {
			rounds = 2
		}
		for rd := 0; rd < rounds; rd++ {
			var actual string
			switch {
			case r.Intn(3) == 0:
				actual = gd.data // matches
				if v, ok := final[gd.name]; ok {
					_ = v // an earlier mismatch stays recorded; a later matching cmp against the ORIGINAL golden adds nothing
				}
			case special == 1 && i == 0 && rd == 0:
				actual = unquotable[r.Intn(len(unquotable))]
				g.unquotable = true
			default:
				actual = contents[r.Intn(len(contents))]
			}
			src := emitActual(actual)
			spelled := ar(gd.name)
			switch r.Intn(5) {
			case 0:
				spelled = "$WORK/" + gd.name
			case 1:
				if !g.setupCd {
					spelled = "./" + gd.name
				}
			}
			fmt.Fprintf(&sb, "cmp %s %s\n", src, spelled)
			if seenActuals[gd.name] == nil {
				seenActuals[gd.name] = map[string]bool{}
			}
			seenActuals[gd.name][actual] = true
			if actual != gd.data {
				final[gd.name] = actual
				kinds = append(kinds, fmt.Sprintf("upd:%q", actual))
			} else {
				kinds = append(kinds, "match")
			}
			// lines that must never modify the script
			switch r.Intn(6) {
			case 0:
				// against the archive entry that is never a golden of a plain cmp (so it differs in every run)
				if extra.data != actual {
					fmt.Fprintf(&sb, "! cmp %s %s\n", src, ar(extra.name))
					kinds = append(kinds, "negcmp")
				}
			case 1:
				if actual == gd.data && !strings.Contains(actual, "$") {
					fmt.Fprintf(&sb, "cmpenv %s %s\n", src, ar(gd.name))
					kinds = append(kinds, "cmpenv")
				}
			case 2:
				// a golden outside the archive (created at run time) that matches
				fileCtr++
				out := fmt.Sprintf("outside%d", fileCtr)
				fmt.Fprintf(&sb, "cp %s %s\ncmp %s %s\n", src, out, src, out)
				kinds = append(kinds, "outside")
			}
		}
	}
	if special > 1 && len(final) > 0 && len(golds) > 1 && r.Intn(3) == 0 {
		// one command, both of its streams compared: the first comparison finds a stale golden (and
		// records the update once more, with the same content), the second one must still see what the
		// command wrote
		var stale []golden
		for _, gd := range golds {
			if _, ok := final[gd.name]; ok {
				stale = append(stale, gd)
			}
		}
		g1 := stale[r.Intn(len(stale))]
		g2 := golds[r.Intn(len(golds))]
		if g2.name != g1.name {
			cur := func(gd golden) string {
				if a, ok := final[gd.name]; ok {
					return a
				}
				return gd.data
			}
			fmt.Fprintf(&sb, "exec vhelper printhexboth '%s' '%s'\ncmp stdout %s\ncmp stderr %s\n", hex.EncodeToString([]byte(cur(g1))), hex.EncodeToString([]byte(cur(g2))), ar(g1.name), ar(g2.name))
			kinds = append(kinds, "both-streams")
		}
	}
	if special == 0 {
		// exactly one mismatch that must NOT be repaired: the run fails and the file stays byte-identical
		gd := golds[0]
		actual := gd.data + "different\n"
		src := emitActual(actual)
		switch r.Intn(3) {
		case 0:
			fmt.Fprintf(&sb, "cmpenv %s %s\n", src, ar(gd.name))
			kinds = append(kinds, "fail-cmpenv")
		case 1:
			fmt.Fprintf(&sb, "cp %s outside\ncp %s outside\ncmp %s outside\n", ar(gd.name), ar(gd.name), src)
			kinds = append(kinds, "fail-outside")
		default:
			src2 := emitActual(gd.data)
			fmt.Fprintf(&sb, "! cmp %s %s\n", src2, ar(gd.name))
			kinds = append(kinds, "fail-negcmp-equal")
		}
		g.wantFail = true
	}
	if !g.wantFail && !g.unquotable && r.Intn(5) == 0 {
		// the run ends badly AFTER goldens were updated: the updates that were recorded must be
		// written all the same (the script file is rewritten however the run ends)
		switch r.Intn(3) {
		case 0:
			src := emitActual("something\n")
			fmt.Fprintf(&sb, "cp %s outside-end\n", src)
			src2 := emitActual("something else\n")
			fmt.Fprintf(&sb, "cmp %s outside-end\n", src2)
			g.endVerdict = "fail"
			kinds = append(kinds, "then-fail-outside")
		case 1:
			fmt.Fprintf(&sb, "exists no-such-file-at-the-end\n")
			g.endVerdict = "fail"
			kinds = append(kinds, "then-fail")
		default:
			sb.WriteString("skip 'after the updates'\n")
			g.endVerdict = "skip"
			kinds = append(kinds, "then-skip")
		}
	}
	if !g.wantFail && g.endVerdict == "" && r.Intn(3) == 0 {
		// the file of an entry that is no golden changes on disk during the run: the archive entry must not follow it
		fmt.Fprintf(&sb, "exec vhelper out 'scribble'\ncp stdout %s\n", ar("input.txt"))
		kinds = append(kinds, "disk-change")
	}
	comment := sb.String()
	{
		// every fourth script text has CRLF line endings on some of its lines (a carriage return at the
		// end of a command line is white space to the interpreter); the rewrite must keep them as they are.
		// Decided from the text itself so that the PRNG stream of the generator is left alone.
		h := uint32(2166136261)
		for i := 0; i < len(comment); i++ {
			h = (h ^ uint32(comment[i])) * 16777619
		}
		if h%4 == 0 {
			lines := strings.SplitAfter(comment, "\n")
			for i, l := range lines {
				if strings.HasSuffix(l, "\n") && (h>>(8+uint(i)%16))&1 == 1 {
					lines[i] = l[:len(l)-1] + "\r\n"
				}
			}
			comment = strings.Join(lines, "")
			kinds = append(kinds, "crlf-script-text")
		}
	}
	before := &xt.Archive{Comment: []byte(comment)}
	order := append([]golden{}, golds...)
	pos := r.Intn(len(order) + 1)
	order = append(order[:pos:pos], append([]golden{extra}, order[pos:]...)...)
	// The same entry name twice (allowed unless RequireUniqueNames is set, which the runs of every third
	// script are - those get none): the later entry is the one that is unpacked last and therefore the
	// golden the script compares with. It must hold the actual content afterwards; the shadowed earlier
	// one may keep its content or follow (the statement does not say).
	shadow := -1
	if idx%3 == 0 && r.Intn(3) == 0 {
		k := r.Intn(len(order))
		if order[k].name != extra.name {
			sh := golden{order[k].name, "shadowed earlier entry of the same name\n", order[k].arname}
			at := r.Intn(k + 1)
			order = append(order[:at:at], append([]golden{sh}, order[at:]...)...)
			shadow = at
			kinds = append(kinds, "dup-name")
		}
	}
	for _, e := range order {
		before.Files = append(before.Files, xt.File{Name: e.arname, Data: []byte(e.data)})
	}
	g.text = string(xt.Format(before))
	if len(final) > 0 && !g.wantFail {
		exp := &xt.Archive{Comment: []byte(comment)}
		for i, e := range order {
			d := e.data
			if a, ok := final[e.name]; ok && i == shadow {
				alt := fixNL(a)
				if hasMarker(a) {
					alt = quoteRef(fixNL(a))
				}
				g.alt = map[int]string{i: alt}
			} else if ok {
				d = fixNL(a)
				if hasMarker(a) {
					d = quoteRef(fixNL(a))
					allRepresentable = false
				}
				if !strings.HasSuffix(a, "\n") && a != "" {
					allRepresentable = false
				}
				g.updates++
			}
			exp.Files = append(exp.Files, xt.File{Name: e.arname, Data: []byte(d)})
		}
		g.expect = exp
		g.rerunPasses = allRepresentable && !g.unquotable
		for _, set := range seenActuals {
			if len(set) > 1 {
				g.rerunPasses = false // the same golden is compared with different contents: no single golden can satisfy both lines
			}
		}
	}
	if g.setupCd {
		kinds = append(kinds, "setup-cd")
	}
	g.sig = strings.Join(kinds, ",")
	return g
}

func eqArchive(a, b *xt.Archive, alt ...map[int]string) string {
	if !bytes.Equal(a.Comment, b.Comment) {
		return fmt.Sprintf("the script text changed: %q vs %q", a.Comment, b.Comment)
	}
	if len(a.Files) != len(b.Files) {
		return fmt.Sprintf("%d entries vs %d entries", len(a.Files), len(b.Files))
	}
	for i := range a.Files {
		if a.Files[i].Name != b.Files[i].Name {
			return fmt.Sprintf("entry %d is named %q, expected %q", i, a.Files[i].Name, b.Files[i].Name)
		}
		if len(alt) > 0 && alt[0] != nil {
			if d, ok := alt[0][i]; ok && string(a.Files[i].Data) == d {
				continue
			}
		}
		if !bytes.Equal(a.Files[i].Data, b.Files[i].Data) {
			return fmt.Sprintf("entry %q holds %q, expected %q", a.Files[i].Name, a.Files[i].Data, b.Files[i].Data)
		}
	}
	return ""
}

func runOne(file string, update bool, style tsh.Style, setupCd, uniqueNames bool) *tsh.RecT {
	// (entry names are unique in every generated archive, so requiring that changes nothing - but
	// the parameter travels with the run, and the rewrite of the script must not depend on it)
	p := testscript.Params{Files: []string{file}, UpdateScripts: update, RequireUniqueNames: uniqueNames, ContinueOnError: false}
	if setupCd {
		p.Setup = func(env *testscript.Env) error {
			d := filepath.Join(env.WorkDir, "startdir")
			if err := os.MkdirAll(d, 0o777); err != nil {
				return err
			}
			env.Cd = d
			return nil
		}
	}
	root := tsh.NewRoot(style, false, false)
	root.Run("batch", func(t testscript.T) { testscript.RunT(t, p) })
	root.Release()
	if len(root.Subs) == 0 || len(root.Subs[0].Subs) == 0 {
		return nil
	}
	return root.Subs[0].Subs[0]
}

func main() {
	tsh.Main("C16", "exploration", 10*time.Minute, func(r *vlib.Run) {
		run = r
		r.Rule("scripts with 2-6 golden entries (some nested names) plus a data entry; every fourth script text has CRLF line endings on some of its lines (they must survive the rewrite byte for byte); actual contents come from stdout, stderr or a file and are drawn from empty / newline-terminated / CRLF / invalid UTF-8 / '>'-prefixed / no-final-newline / marker-line contents; goldens match or not, some are compared twice (last actual wins), a ninth of the scripts compare both streams of one command, the first against a stale golden, interleaved with '! cmp', matching 'cmpenv' and comparisons against files created at run time; a third of the runs set Params.RequireUniqueNames; a quarter of the scripts start in $WORK/startdir because Params.Setup moved Env.Cd there (archive entries are then spelled ../name or $WORK/name); a quarter of the entries are named `$WORK/name` in the archive itself (expanded when unpacked; the name in the file must stay as written); a ninth of the scripts name one golden twice (the later entry is the effective one and must be updated); 10% dedicated scenarios in which the only mismatch must not be repaired (cmpenv, file outside the archive, '! cmp' of equal files), 10% with content that cannot be quoted. Non-trivial = distinct sequence of (update content / match / other) kinds with at least one update or a dedicated scenario.")
		r.Assume("content that has marker lines and no final newline (or invalid UTF-8 with marker lines) cannot be represented by any implementation: for it only 'the script file is not corrupted' is asserted")
		base := vlib.Scratch()
		rng := r.Rand("scripts")
		n := r.Pick(500, 12000)
		var nUpd, nRerun, nFailScen, nUnq int
		for i := 0; i < n; i++ {
			g := gen(rng, i)
			dir := filepath.Join(base, fmt.Sprintf("d%d", i))
			os.MkdirAll(dir, 0o777)
			file := filepath.Join(dir, g.name+".txt")
			os.WriteFile(file, []byte(g.text), 0o666)
			sub := runOne(file, true, tsh.Style(i%2), g.setupCd, i%3 == 1)
			r.Eval(1)
			if g.updates > 0 || g.wantFail {
				r.Distinct(g.sig)
			}
			afterB, _ := os.ReadFile(file)
			after := xt.Parse(afterB)
			before := xt.Parse([]byte(g.text))
			fail := func(kind, detail string) {
				if limited(kind) {
					r.Count("suppressed_duplicate_reports_"+kind, 1)
					return
				}
				want := ""
				if g.expect != nil {
					want = string(xt.Format(g.expect))
				}
				lg := ""
				if sub != nil {
					lg = sub.LogText()
				}
				r.Violation(fmt.Sprintf("%s script=%s seed=%d", kind, g.name, r.Seed), fmt.Sprintf("%s: %s; script before:\n%s", kind, detail, g.text), ucase{kind, g.text, string(afterB), want, detail, tail(lg, 2000)})
			}
			if sub == nil {
				r.Inconclusive("no subtest result")
				continue
			}
			v := sub.Verdict()
			switch {
			case g.unquotable:
				nUnq++
				// only: the file is not corrupted (same entry names in the same order, untouched entries intact)
				if len(after.Files) != len(before.Files) {
					fail("script-corrupted", fmt.Sprintf("entry count changed from %d to %d for content that cannot be quoted", len(before.Files), len(after.Files)))
				} else {
					for j := range after.Files {
						if after.Files[j].Name != before.Files[j].Name {
							fail("script-corrupted", fmt.Sprintf("entry %d renamed %q -> %q", j, before.Files[j].Name, after.Files[j].Name))
						}
					}
				}
				if !bytes.Equal(after.Comment, before.Comment) {
					fail("script-corrupted", "script text changed")
				}
			case g.wantFail:
				nFailScen++
				if v != "fail" {
					fail("unrepairable-mismatch-did-not-fail", fmt.Sprintf("the only mismatch is one that UpdateScripts must not repair (%s), yet the run was reported as %s", g.sig, v))
				}
				if !bytes.Equal(afterB, []byte(g.text)) {
					fail("script-modified-by-non-updating-comparison", "the script file changed although only cmpenv / outside-archive / negated comparisons mismatched")
				}
			case g.endVerdict != "":
				r.Count("runs_ending_badly_after_updates", 1)
				if v != g.endVerdict {
					fail("wrong-verdict-after-updates", fmt.Sprintf("the last line makes the run %s, reported %s", g.endVerdict, v))
				}
				if g.expect == nil {
					if !bytes.Equal(afterB, []byte(g.text)) {
						fail("script-modified-without-mismatch", "the script file changed although no golden mismatched")
					}
				} else if d := eqArchive(after, g.expect, g.alt); d != "" {
					fail("updates-lost-when-the-run-ends-badly", fmt.Sprintf("goldens mismatched (and were accepted) before the run ended as %s, but the script file does not hold the actual contents: %s", g.endVerdict, d))
				}
			case g.expect == nil:
				if v != "pass" {
					fail("matching-script-did-not-pass", "every golden matches but the run was reported as "+v)
				}
				if !bytes.Equal(afterB, []byte(g.text)) {
					fail("script-modified-without-mismatch", "the script file changed although nothing mismatched")
				}
			default:
				nUpd++
				if v != "pass" {
					fail("update-run-did-not-pass", "with UpdateScripts a mismatching in-archive cmp must not fail the run; reported "+v)
					break
				}
				if d := eqArchive(after, g.expect, g.alt); d != "" {
					fail("wrong-update", d)
					break
				}
				canon := g.expect
				for i, d := range g.alt {
					// the shadowed duplicate may have followed the update: canonical form with what it holds
					if i < len(after.Files) && string(after.Files[i].Data) == d {
						cp := *g.expect
						cp.Files = append([]xt.File{}, g.expect.Files...)
						cp.Files[i].Data = []byte(d)
						canon = &cp
					}
				}
				if !bytes.Equal(afterB, xt.Format(canon)) {
					fail("script-bytes-differ", "the rewritten file parses as expected but is not byte-identical to the canonical form of the expected archive")
				}
				if g.rerunPasses {
					nRerun++
					sub2 := runOne(file, false, tsh.Style((i+1)%2), g.setupCd, i%3 == 2)
					again, _ := os.ReadFile(file)
					if sub2 == nil || sub2.Verdict() != "pass" {
						lg := ""
						if sub2 != nil {
							lg = sub2.LogText()
						}
						fail("rerun-after-update-fails", "re-running the updated script without UpdateScripts does not pass: "+tail(lg, 500))
					}
					if !bytes.Equal(again, afterB) {
						fail("rerun-changes-script", "the second run (without UpdateScripts) modified the script file")
					}
				}
			}
			if i < 3 {
				r.Sample(map[string]any{"kind": "script", "text": g.text, "updates": g.updates, "must_fail": g.wantFail})
			}
			os.RemoveAll(dir)
		}
		r.Set("scripts_with_updates", nUpd)
		r.Set("reruns_without_update_flag", nRerun)
		r.Set("dedicated_failing_scenarios", nFailScen)
		r.Set("unquotable_content_scenarios", nUnq)
		_ = utf8.Valid
	})
}

func tail(s string, n int) string {
	if len(s) > n {
		return s[len(s)-n:]
	}
	return s
}
