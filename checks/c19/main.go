// C19: imports.ShouldBuild and MatchFile implement Go's build-constraint rules.
// Oracle: a reference evaluator written from the statement, cross-validated
// on the domain where they are comparable with go/build.Context.MatchFile and
// go/build/constraint (disagreement between the two references = harness
// fault = inconclusive, never a violation).
package main

import (
	"bytes"
	"fmt"
	"go/build"
	"go/build/constraint"
	"io"
	"runtime"
	"sort"
	"strings"
	"sync"
	"sync/atomic"
	"time"
	"unicode"

	"github.com/rogpeppe/go-internal/imports"

	"verif/vlib"
)

type tcase struct {
	Kind    string   `json:"kind"`
	Content string   `json:"content,omitempty"`
	Name    string   `json:"name,omitempty"`
	Tags    []string `json:"tags"`
	Got     bool     `json:"got"`
	Want    bool     `json:"want"`
}

var (
	run      *vlib.Run
	kindMu   sync.Mutex
	kindSeen = map[string]int{}
)

func tagList(t map[string]bool) []string {
	var l []string
	for k, v := range t {
		if v {
			l = append(l, k)
		}
	}
	sort.Strings(l)
	return l
}

func report(kind string, c tcase) {
	kindMu.Lock()
	kindSeen[kind]++
	n := kindSeen[kind]
	kindMu.Unlock()
	if n > 4 {
		run.Count("suppressed_duplicate_reports_"+kind, 1)
		return
	}
	c.Kind = kind
	subj := c.Name
	if subj == "" {
		subj = fmt.Sprintf("%q", c.Content)
	}
	run.Violation(fmt.Sprintf("%s %s tags=%s", kind, subj, strings.Join(c.Tags, ",")),
		fmt.Sprintf("%s: %s with tags {%s}: got %v, Go's rules give %v", kind, subj, strings.Join(c.Tags, ","), c.Got, c.Want), c)
}

// ---------- reference evaluator (from the statement) ----------

func validTag(s string) bool {
	if s == "" {
		return false
	}
	for _, c := range s {
		if !unicode.IsLetter(c) && !unicode.IsDigit(c) && c != '_' && c != '.' {
			return false
		}
	}
	return true
}

func refTerm(term string, tags map[string]bool) bool {
	neg := false
	if strings.HasPrefix(term, "!!") {
		return false
	}
	if strings.HasPrefix(term, "!") {
		neg = true
		term = term[1:]
	}
	if !validTag(term) {
		return false // malformed terms are false
	}
	if tags["*"] && term != "ignore" {
		return true // both true and false
	}
	have := tags[term]
	if term == "linux" && tags["android"] {
		have = true
	}
	return have != neg
}

func refLine(args string, tags map[string]bool) bool {
	for _, opt := range strings.Fields(args) {
		all := true
		for _, term := range strings.Split(opt, ",") {
			if !refTerm(term, tags) {
				all = false
			}
		}
		if all {
			return true
		}
	}
	return false
}

// plusBuildArgs: is this (trimmed) line a "// +build" line? returns its arguments.
func plusBuildArgs(line string) (string, bool) {
	if !strings.HasPrefix(line, "//") {
		return "", false
	}
	rest := strings.TrimSpace(line[2:])
	f := strings.Fields(rest)
	if len(f) == 0 || f[0] != "+build" {
		return "", false
	}
	return strings.Join(f[1:], " "), true
}

func refShouldBuild(content []byte, tags map[string]bool) bool {
	// split into lines
	var lines []string
	rest := string(content)
	for len(rest) > 0 {
		i := strings.IndexByte(rest, '\n')
		if i < 0 {
			lines = append(lines, rest)
			break
		}
		lines = append(lines, rest[:i])
		rest = rest[i+1:]
	}
	// leading run of blank and // lines; the block ends at the last blank line in it
	lastBlank := -1
	for i, l := range lines {
		t := strings.TrimSpace(l)
		if t == "" {
			lastBlank = i
			continue
		}
		if !strings.HasPrefix(t, "//") {
			break
		}
	}
	for i := 0; i <= lastBlank; i++ {
		if args, ok := plusBuildArgs(strings.TrimSpace(lines[i])); ok {
			if !refLine(args, tags) {
				return false
			}
		}
	}
	return true
}

var knownOS = map[string]bool{}
var knownArch = map[string]bool{}

func init() {
	for _, v := range strings.Fields("aix android darwin dragonfly freebsd hurd illumos ios js linux nacl netbsd openbsd plan9 solaris windows zos") {
		knownOS[v] = true
	}
	for _, v := range strings.Fields("386 amd64 amd64p32 arm armbe arm64 arm64be loong64 mips mipsle mips64 mips64le mips64p32 mips64p32le ppc ppc64 ppc64le riscv riscv64 s390 s390x sparc sparc64 wasm") {
		knownArch[v] = true
	}
}

func refMatchFile(name string, tags map[string]bool) bool {
	if tags["*"] {
		return true
	}
	sel := func(x string) bool { return tags[x] || (x == "linux" && tags["android"]) }
	if i := strings.Index(name, "."); i >= 0 {
		name = name[:i]
	}
	i := strings.Index(name, "_")
	if i < 0 {
		return true
	}
	l := strings.Split(name[i:], "_")
	if len(l) > 0 && l[len(l)-1] == "test" {
		l = l[:len(l)-1]
	}
	n := len(l)
	switch {
	case n >= 2 && knownOS[l[n-2]] && knownArch[l[n-1]]:
		return sel(l[n-2]) && sel(l[n-1])
	case n >= 1 && knownOS[l[n-1]]:
		return sel(l[n-1])
	case n >= 1 && knownArch[l[n-1]]:
		return sel(l[n-1])
	}
	return true
}

// ---------- second reference: go/build ----------

func buildCtx(tags map[string]bool) build.Context {
	c := build.Context{GOOS: "zzos", GOARCH: "zzarch", Compiler: "zzc"}
	for _, t := range tagList(tags) {
		if t == "android" {
			c.GOOS = "android"
			continue
		}
		c.BuildTags = append(c.BuildTags, t)
	}
	return c
}

// comparableTags: go/build has extra rules for these; keep them out of the cross-check.
func comparableTags(tags map[string]bool) bool {
	for _, t := range []string{"*", "unix", "cgo", "ios", "illumos", "darwin", "solaris", "zzos", "zzarch", "zzc"} {
		if tags[t] {
			return false
		}
	}
	return true
}

func goBuildShould(content []byte, tags map[string]bool) (bool, error) {
	c := buildCtx(tags)
	c.OpenFile = func(string) (io.ReadCloser, error) { return io.NopCloser(bytes.NewReader(content)), nil }
	return c.MatchFile("/d", "x.s")
}

// comparableContent: sources on which modern go/build still applies exactly the
// classic rules (no //go:build, no block comments, no negated or ignore-dependent
// malformed literals - see DESIGN.md §C19).
func comparableContent(content []byte, tags map[string]bool) bool {
	s := string(content)
	if strings.Contains(s, "go:build") || strings.Contains(s, "/*") || strings.Contains(s, "\r") || strings.Contains(s, "\f") || strings.Contains(s, "\v") {
		return false
	}
	for _, l := range strings.Split(s, "\n") {
		args, ok := plusBuildArgs(strings.TrimSpace(l))
		if !ok {
			continue
		}
		if !constraint.IsPlusBuild(strings.TrimSpace(l)) {
			return false
		}
		if strings.TrimSpace(args) == "" && tags["ignore"] {
			return false // constraint.Parse turns an empty +build line into tag "ignore"
		}
		for _, opt := range strings.Fields(args) {
			for _, term := range strings.Split(opt, ",") {
				t := strings.TrimPrefix(term, "!")
				if !validTag(t) && (strings.HasPrefix(term, "!") || tags["ignore"]) {
					return false
				}
				if t == "unix" || t == "cgo" || t == "gc" || strings.HasPrefix(t, "go1") || t == "zzos" || t == "zzarch" {
					return false
				}
			}
		}
	}
	return true
}

// ---------- generators ----------

var vocab = []string{"a", "b", "linux", "android", "ignore", "windows", "x.y", "386"}
var malformed = []string{"!!a", "!", "a-b", "!a-b", "", "a/b", "!!", "a b"[:1] + "+", "é", "!é", "a$"}

func genTerm(r interface{ Intn(int) int }) string {
	switch r.Intn(10) {
	case 0:
		return malformed[r.Intn(len(malformed))]
	case 1, 2, 3:
		return "!" + vocab[r.Intn(len(vocab))]
	}
	return vocab[r.Intn(len(vocab))]
}

func genOption(r interface{ Intn(int) int }) string {
	n := 1 + r.Intn(3)
	var ts []string
	for i := 0; i < n; i++ {
		ts = append(ts, genTerm(r))
	}
	return strings.Join(ts, ",")
}

func genPlusBuild(r interface{ Intn(int) int }) string {
	n := r.Intn(4)
	var os []string
	for i := 0; i < n; i++ {
		os = append(os, genOption(r))
	}
	pre := []string{"// +build", "//+build", "//  +build", "\t// +build", "// +build ", "//\t+build"}[r.Intn(6)]
	sep := []string{" ", "  ", "\t"}[r.Intn(3)]
	if n == 0 {
		return pre
	}
	return pre + " " + strings.Join(os, sep)
}

func genContent(r interface{ Intn(int) int }) []byte {
	var sb strings.Builder
	n := r.Intn(6)
	for i := 0; i < n; i++ {
		switch r.Intn(12) {
		case 0, 1, 2, 3, 4:
			sb.WriteString(genPlusBuild(r))
		case 5:
			sb.WriteString("// an ordinary comment")
		case 6:
			sb.WriteString("")
		case 7:
			sb.WriteString("  \t")
		case 8:
			sb.WriteString("/* block */")
		case 9:
			sb.WriteString("// +builder a")
		case 10:
			sb.WriteString("// + build a")
		default:
			sb.WriteString("//")
		}
		if r.Intn(12) == 0 {
			sb.WriteString("\r")
		}
		sb.WriteString("\n")
	}
	switch r.Intn(4) {
	case 0:
		sb.WriteString("\n")
	case 1:
		// no separating blank line
	case 2:
		sb.WriteString("\n\n")
	default:
		sb.WriteString(" \n")
	}
	switch r.Intn(5) {
	case 0:
		sb.WriteString("package p\n// +build " + genOption(r) + "\n\nvar x int\n")
	case 1:
		sb.WriteString("package p")
	case 2:
		// nothing follows
	case 3:
		sb.WriteString("#include <x.h>\n")
	default:
		sb.WriteString("package p\n")
	}
	return []byte(sb.String())
}

var nCross, nCrossNames, nFalse, nTrue int64

func checkShould(content []byte, tags map[string]bool) {
	run.Eval(1)
	want := refShouldBuild(content, tags)
	var got bool
	gc, gcChanged := vlib.Guarded(content)
	defer func() {
		if c := gcChanged(); c != "" {
			report("argument-modified", tcase{Content: string(content) + " [ShouldBuild: " + c + "]"})
		}
	}()
	if pv, st := vlib.Try(func() { got = imports.ShouldBuild(gc, tags) }); pv != nil {
		report("shouldbuild-panic", tcase{Content: string(content), Tags: tagList(tags)})
		_ = st
		return
	}
	if want {
		atomic.AddInt64(&nTrue, 1)
	} else {
		atomic.AddInt64(&nFalse, 1)
	}
	if comparableTags(tags) && comparableContent(content, tags) {
		gb, err := goBuildShould(content, tags)
		if err == nil {
			atomic.AddInt64(&nCross, 1)
			if gb != want {
				run.Inconclusive(fmt.Sprintf("references disagree on ShouldBuild(%q, %v): statement evaluator %v, go/build %v", content, tagList(tags), want, gb))
				return
			}
		}
	}
	if got != want {
		report("shouldbuild-wrong", tcase{Content: string(content), Tags: tagList(tags), Got: got, Want: want})
	}
}

func checkMatch(name string, tags map[string]bool) {
	run.Eval(1)
	want := refMatchFile(name, tags)
	var got bool
	if pv, _ := vlib.Try(func() { got = imports.MatchFile(name, tags) }); pv != nil {
		report("matchfile-panic", tcase{Name: name, Tags: tagList(tags)})
		return
	}
	if comparableTags(tags) && !strings.HasPrefix(name, "_") && !strings.HasPrefix(name, ".") &&
		strings.Count(name, ".") == 1 && (strings.HasSuffix(name, ".go") || strings.HasSuffix(name, ".s")) {
		c := buildCtx(tags)
		c.OpenFile = func(string) (io.ReadCloser, error) { return io.NopCloser(strings.NewReader("package p\n")), nil }
		gb, err := c.MatchFile("/d", name)
		if err == nil {
			atomic.AddInt64(&nCrossNames, 1)
			if gb != want {
				run.Inconclusive(fmt.Sprintf("references disagree on MatchFile(%q, %v): statement evaluator %v, go/build %v", name, tagList(tags), want, gb))
				return
			}
		}
	}
	if got != want {
		report("matchfile-wrong", tcase{Name: name, Tags: tagList(tags), Got: got, Want: want})
	}
}

func main() {
	vlib.Main("C19", "exploration", 10*time.Minute, func(r *vlib.Run) {
		run = r
		if p := vlib.ReplayPath(); p != "" {
			var c tcase
			if err := vlib.LoadReplayCase(p, &c); err != nil {
				r.Inconclusive("cannot load replay: " + err.Error())
				return
			}
			tags := map[string]bool{}
			for _, t := range c.Tags {
				tags[t] = true
			}
			if c.Name != "" {
				checkMatch(c.Name, tags)
			} else {
				checkShould([]byte(c.Content), tags)
			}
			r.DistinctBulk(2)
			return
		}
		r.Rule("ShouldBuild: generated leading blocks (0-5 lines of '// +build' variants, comments, blank lines, block comments, near-misses; with/without the terminating blank line; CRLF) x tag sets over an 8-tag vocabulary (all 256 subsets for the first contents, random subsets after; '*' on/off). MatchFile: every name of 1-4 segments over {x, linux, android, windows, amd64, arm, test, foo} joined by '_' x 4 extensions x all subsets of {linux, android, windows, amd64, arm} plus '*' sets. Non-trivial = distinct (content, tags) whose block contains a +build line, or distinct (name, tags) with a known OS/arch segment.")
		r.Assume("the statement's rules as coded in checks/c19 (reference evaluator); go/build + go/build/constraint of Go 1.23 on the sub-domain where modern go/build applies the classic rules unchanged")
		W := runtime.NumCPU()

		// ---- MatchFile exhaustive
		segs := []string{"x", "linux", "android", "windows", "amd64", "arm", "test", "foo"}
		exts := []string{".go", ".s", ".go.bak", ""}
		var names []string
		var rec func(cur []string)
		rec = func(cur []string) {
			if len(cur) > 0 {
				for _, e := range exts {
					names = append(names, strings.Join(cur, "_")+e)
				}
			}
			if len(cur) == 4 {
				return
			}
			for _, s := range segs {
				rec(append(append([]string{}, cur...), s))
			}
		}
		rec(nil)
		names = append(names, "_linux.go", "x__linux.go", "x_linux_.go", "x_.go", "_.go", "x_linux.test.go", "x.linux_amd64.go", "x_Linux.go", "x_linux_amd64_test.go", "x_test_linux.go", "x_js_wasm.go", "x_plan9_386_test.s")
		mtags := []string{"linux", "android", "windows", "amd64", "arm"}
		var tagsets []map[string]bool
		for m := 0; m < 1<<len(mtags); m++ {
			t := map[string]bool{}
			for i, n := range mtags {
				if m&(1<<i) != 0 {
					t[n] = true
				}
			}
			tagsets = append(tagsets, t)
		}
		tagsets = append(tagsets, map[string]bool{"*": true}, map[string]bool{"*": true, "ignore": true}, map[string]bool{"linux": false, "android": true}, map[string]bool{"js": true, "wasm": true}, map[string]bool{"plan9": true, "386": true})
		var nt int64
		vlib.Parallel(len(names), W, func(i int) {
			n := names[i]
			inter := false
			for _, s := range strings.FieldsFunc(n, func(c rune) bool { return c == '_' || c == '.' }) {
				if knownOS[s] || knownArch[s] {
					inter = true
				}
			}
			for _, t := range tagsets {
				checkMatch(n, t)
			}
			if inter {
				atomic.AddInt64(&nt, int64(len(tagsets)))
			}
		})
		// every known OS / architecture token once in each position of the suffix (the exhaustive
		// sweep above uses a small vocabulary): a token missing from, or mangled in, the library's
		// own lists would otherwise go unnoticed
		var toks []string
		for t := range knownOS {
			toks = append(toks, t)
		}
		for t := range knownArch {
			toks = append(toks, t)
		}
		sort.Strings(toks)
		for _, tk := range toks {
			for _, n := range []string{"x_" + tk + ".go", "x_" + tk + "_test.go", "x_linux_" + tk + ".go", "x_" + tk + "_amd64.go", tk + ".go", tk + "_test.go", "x_" + tk + ".s", "x_y_" + tk + ".go"} {
				for _, t := range []map[string]bool{{tk: true}, {}, {"linux": true, "amd64": true}, {tk: true, "linux": true, "amd64": true}, {"android": true, "arm64": true}} {
					checkMatch(n, t)
					nt++
				}
			}
		}
		r.Set("matchfile_os_and_arch_tokens_swept", len(toks))
		r.DistinctBulk(nt)
		r.Set("matchfile_names", len(names))
		r.Set("matchfile_tagsets", len(tagsets))
		r.Sample(map[string]any{"kind": "matchfile", "name": "foo_android_arm_test.go", "tags": []string{"android", "arm"}})

		// ---- ShouldBuild
		ncontents := r.Pick(3000, 120000)
		nAllSubsets := r.Pick(150, 3000)
		vlib.Parallel(W, W, func(w int) {
			rng := r.Rand(fmt.Sprintf("sb-%d", w))
			for i := w; i < ncontents; i += W {
				c := genContent(rng)
				has := bytes.Contains(c, []byte("+build"))
				try := func(t map[string]bool) {
					checkShould(c, t)
					if has {
						r.Distinct(string(c) + "\x00" + strings.Join(tagList(t), ","))
					}
				}
				if i < nAllSubsets {
					for m := 0; m < 1<<len(vocab); m++ {
						t := map[string]bool{}
						for k, n := range vocab {
							if m&(1<<k) != 0 {
								t[n] = true
							}
						}
						try(t)
					}
				} else {
					for k := 0; k < 24; k++ {
						t := map[string]bool{}
						for _, n := range vocab {
							if rng.Intn(3) == 0 {
								t[n] = true
							}
						}
						if rng.Intn(6) == 0 {
							t["*"] = true
						}
						try(t)
					}
				}
				if i < 4 {
					r.Sample(map[string]any{"kind": "shouldbuild", "content": string(c)})
				}
			}
		})
		r.Set("cross_validated_with_go_build_contents", atomic.LoadInt64(&nCross))
		r.Set("cross_validated_with_go_build_names", atomic.LoadInt64(&nCrossNames))
		r.Set("shouldbuild_true", atomic.LoadInt64(&nTrue))
		r.Set("shouldbuild_false", atomic.LoadInt64(&nFalse))
		if atomic.LoadInt64(&nCross) < 1000 || atomic.LoadInt64(&nCrossNames) < 1000 {
			r.Inconclusive("too few cases were cross-validated against go/build")
		}
	})
}
