package main

import (
	"fmt"
	"math/rand"
	"strings"
)

// Grammar-based generator of Go source files whose interesting part is the
// package clause and the import section.

type gen struct{ r *rand.Rand }

func (g *gen) pick(ss ...string) string { return ss[g.r.Intn(len(ss))] }

var commentBodies = []string{"", " x", " import \"fake\"", " \"quoted\" `raw`", " * / not end", " /* nested-looking", " package q", "\timport (", " é ü", " // inner", "*", "**", " ' "}

// long: once in a while a comment (or a path) is as long as, or longer than, the buffers a
// reader is likely to use (4096 for bufio): sizes around the boundary and well beyond it.
func (g *gen) long() string {
	n := []int{4080, 4090, 4093, 4094, 4095, 4096, 4097, 4100, 8191, 8192, 8193, 20000}[g.r.Intn(12)]
	return strings.Repeat(g.pick("x", "é", "ab ", "/"), n)[:n]
}

func (g *gen) lineComment() string {
	if g.r.Intn(120) == 0 {
		return "//" + g.long() + "\n"
	}
	return "//" + g.pick(commentBodies...) + "\n"
}

func (g *gen) blockComment(allowNL bool) string {
	b := g.pick(commentBodies...)
	if g.r.Intn(120) == 0 {
		b = g.long()
	}
	b = strings.ReplaceAll(b, "*/", "* /")
	if allowNL && g.r.Intn(3) == 0 {
		b += "\n" + g.pick(commentBodies...)
	}
	b = strings.ReplaceAll(b, "*/", "* /")
	return "/*" + b + "*/"
}

// sep returns token-separating text. nl: newlines (and line comments) allowed.
func (g *gen) sep(nl bool, must bool) string {
	var sb strings.Builder
	n := g.r.Intn(3)
	if must && n == 0 {
		n = 1
	}
	for i := 0; i < n; i++ {
		switch g.r.Intn(8) {
		case 0, 1, 2:
			sb.WriteString(" ")
		case 3:
			sb.WriteString("\t")
		case 4:
			sb.WriteString(g.blockComment(nl))
		case 5:
			if nl {
				sb.WriteString(g.lineComment())
			} else {
				sb.WriteString(" ")
			}
		case 6:
			if nl {
				sb.WriteString(g.pick("\n", "\r\n", "\n\n"))
			} else {
				sb.WriteString("  ")
			}
		default:
			sb.WriteString(g.pick(" ", "\f", "\t "))
		}
	}
	return sb.String()
}

var idents = []string{"p", "main", "_x", "π", "pkg1", "import_", "i", "importer", "P9", "日本"}

var paths = []string{"a", "fmt", "a/b", "github.com/x/y", "a.b/c-d", "C", "x_y", "a/b/c/d/e", "ü/é", "golang.org/x/tools/txtar", "a~b", "a+b", "a@v1"}

func (g *gen) stringLit() string {
	p := g.pick(paths...)
	if g.r.Intn(200) == 0 {
		p = "long/" + strings.Repeat("p", []int{4085, 4090, 4091, 4092, 4096, 9000}[g.r.Intn(6)])
	}
	switch g.r.Intn(6) {
	case 0:
		return "`" + p + "`"
	case 1: // escapes in an interpreted string
		var sb strings.Builder
		sb.WriteByte('"')
		for i := 0; i < len(p); i++ {
			c := p[i]
			if c < 0x80 && g.r.Intn(3) == 0 {
				switch g.r.Intn(3) {
				case 0:
					fmt.Fprintf(&sb, "\\x%02x", c)
				case 1:
					fmt.Fprintf(&sb, "\\%03o", c)
				default:
					fmt.Fprintf(&sb, "\\u%04x", c)
				}
			} else {
				sb.WriteByte(c)
			}
		}
		sb.WriteByte('"')
		return sb.String()
	case 2: // sometimes invalid: escaped quote / backslash inside (parser decides)
		return "\"" + p + g.pick("\\\"", "\\\\", "\\n", "") + "\""
	default:
		return "\"" + p + "\""
	}
}

func (g *gen) importSpec() string {
	var sb strings.Builder
	switch g.r.Intn(6) {
	case 0:
		sb.WriteString(".")
		sb.WriteString(g.sep(false, false))
	case 1:
		sb.WriteString("_")
		sb.WriteString(g.sep(false, true))
	case 2:
		sb.WriteString(g.pick(idents...))
		sb.WriteString(g.sep(false, true))
	}
	sb.WriteString(g.stringLit())
	return sb.String()
}

func (g *gen) term() string {
	switch g.r.Intn(6) {
	case 0:
		return ";"
	case 1:
		return ";\n"
	case 2:
		return "\r\n"
	case 3:
		return " " + g.lineComment()
	case 4:
		return " ;" + g.sep(true, false)
	}
	return "\n"
}

func (g *gen) importDecl() string {
	var sb strings.Builder
	sb.WriteString("import")
	if g.r.Intn(3) == 0 {
		// grouped
		sb.WriteString(g.sep(true, false))
		sb.WriteString("(")
		n := g.r.Intn(4)
		for i := 0; i < n; i++ {
			sb.WriteString(g.sep(true, false))
			sb.WriteString(g.importSpec())
			if i == n-1 && g.r.Intn(2) == 0 {
				sb.WriteString(g.sep(false, false)) // last spec may be followed directly by ')'
			} else {
				sb.WriteString(g.term())
			}
		}
		sb.WriteString(g.sep(true, false))
		sb.WriteString(")")
	} else {
		s := g.sep(true, false)
		spec := g.importSpec()
		if s == "" && spec[0] != '"' && spec[0] != '`' && spec[0] != '.' {
			s = " "
		}
		sb.WriteString(s)
		sb.WriteString(spec)
	}
	sb.WriteString(g.term())
	return sb.String()
}

var decls = []string{
	"var x = 1\n", "func f() {}\n", "type i int\n", "const c = \"import\"\n", "func init() { _ = `import \"zzz\"` }\n",
	"var import_ = 2\n", "type T struct{ i int }\n", "func (T) m() { i := 0; _ = i }\n", "var (\n\ta = 'i'\n\tb = \"\\\"\"\n)\n",
	"// trailing comment\n", "/* import \"q\" */\n", "var s = []string{\"a\", `b`}\n", "func g() { import_ := 1; _ = import_ }\n",
	"var y = x / 2\n", "type U interface{ m() }\n", "const d = 1 /* c */ + 2\n", "var r = '\\''\n",
}

// file generates one candidate file; most are syntactically valid.
func (g *gen) file() []byte {
	var sb strings.Builder
	if g.r.Intn(8) == 0 {
		sb.WriteString("\xef\xbb\xbf")
	}
	n := g.r.Intn(4)
	for i := 0; i < n; i++ {
		switch g.r.Intn(4) {
		case 0:
			sb.WriteString(g.lineComment())
		case 1:
			sb.WriteString(g.blockComment(true))
		case 2:
			sb.WriteString(g.pick("\n", " ", "\t", "\r\n", "// +build x\n\n"))
		default:
			sb.WriteString(g.sep(true, false))
		}
	}
	sb.WriteString("package")
	sb.WriteString(g.sep(true, true))
	sb.WriteString(g.pick(idents...))
	sb.WriteString(g.term())
	ni := g.r.Intn(6)
	if g.r.Intn(10) == 0 {
		ni = 6 + g.r.Intn(3)
	}
	for i := 0; i < ni; i++ {
		sb.WriteString(g.sep(true, false))
		sb.WriteString(g.importDecl())
	}
	sb.WriteString(g.sep(true, false))
	nd := g.r.Intn(4)
	for i := 0; i < nd; i++ {
		sb.WriteString(g.pick(decls...))
	}
	if g.r.Intn(6) == 0 { // no final newline
		s := sb.String()
		return []byte(strings.TrimRight(s, "\n"))
	}
	return []byte(sb.String())
}

// mutateBytes derives an arbitrary byte string from a file.
func mutateBytes(r *rand.Rand, b []byte) []byte {
	b = append([]byte{}, b...)
	k := 1 + r.Intn(3)
	for ; k > 0; k-- {
		if len(b) == 0 {
			return []byte{byte(r.Intn(256))}
		}
		i := r.Intn(len(b))
		switch r.Intn(9) {
		case 7, 8:
			// damage a string literal: drop one of its quotes, or break the line inside it
			var qs []int
			for j, c := range b {
				if c == '"' || c == '`' {
					qs = append(qs, j)
				}
			}
			if len(qs) == 0 {
				break
			}
			j := qs[r.Intn(len(qs))]
			if r.Intn(2) == 0 {
				b = append(b[:j], b[j+1:]...)
			} else {
				at := j + 1 + r.Intn(4)
				if at > len(b) {
					at = len(b)
				}
				b = append(b[:at], append([]byte("\n"), b[at:]...)...)
			}
		case 0:
			b = b[:i]
		case 1:
			b[i] = byte(r.Intn(256))
		case 2:
			b = append(b[:i], append([]byte{0}, b[i:]...)...)
		case 3:
			b = append(b[:i], b[i+1:]...)
		case 4:
			ins := []string{"\"", "`", "/*", "*/", "//", "(", ")", "import", "\\", ";", "\n", "i", "."}[r.Intn(13)]
			b = append(b[:i], append([]byte(ins), b[i:]...)...)
		case 5:
			j := r.Intn(len(b))
			b[i], b[j] = b[j], b[i]
		default:
			b = append(b, b[i:]...)
		}
	}
	return b
}
