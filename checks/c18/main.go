// C18: imports.ReadImports returns exactly the file's imports and a safe prefix.
// Oracle: go/parser (full parse decides validity; ImportsOnly gives the
// reference import list, on the whole file and on the returned prefix);
// prefix / whole-input relations by byte comparison; panic and stall guards.
package main

import (
	"bytes"
	"encoding/hex"
	"fmt"
	"go/parser"
	"go/token"
	"runtime"
	"sync"
	"sync/atomic"
	"time"

	"github.com/rogpeppe/go-internal/imports"

	"verif/vlib"
)

type tcase struct {
	Kind     string `json:"kind"`
	InputHex string `json:"input_hex"`
	Input    string `json:"input_quoted"`
	Detail   string `json:"detail,omitempty"`
}

var (
	run      *vlib.Run
	kindMu   sync.Mutex
	kindSeen = map[string]int{}
)

func report(kind string, in []byte, detail string) {
	if run == nil {
		if vlib.FuzzFail != nil {
			vlib.FuzzFail(kind + ": " + detail)
		}
		return
	}
	kindMu.Lock()
	kindSeen[kind]++
	n := kindSeen[kind]
	kindMu.Unlock()
	if n > 4 {
		run.Count("suppressed_duplicate_reports_"+kind, 1)
		return
	}
	run.Violation(fmt.Sprintf("%s input=%s", kind, vlib.Q(in)),
		fmt.Sprintf("%s on input %s: %s", kind, vlib.Q(in), detail),
		tcase{Kind: kind, InputHex: hex.EncodeToString(in), Input: vlib.Q(in), Detail: detail})
}

var bom = []byte("\xef\xbb\xbf")

const alphaBytes = "pakgeimort \"`/*\n();.\\\x00\xef\xbb\xbfx"

func refImports(src []byte) ([]string, error) {
	fset := token.NewFileSet()
	f, err := parser.ParseFile(fset, "x.go", src, parser.ImportsOnly)
	if err != nil {
		return nil, err
	}
	var out []string
	for _, s := range f.Imports {
		out = append(out, s.Path.Value)
	}
	return out, nil
}

func fullyValid(src []byte) bool {
	fset := token.NewFileSet()
	_, err := parser.ParseFile(fset, "x.go", src, parser.AllErrors|parser.ParseComments)
	return err == nil
}

// normLit: the Go spec discards carriage returns inside raw string literals
// (go/parser reports the literal without them, ReadImports returns the source
// bytes); both denote the same import path.
func normLit(s string) string {
	if len(s) > 0 && s[0] == '`' {
		return string(bytes.ReplaceAll([]byte(s), []byte("\r"), nil))
	}
	return s
}

func eqStrings(a, b []string) bool {
	if len(a) != len(b) {
		return false
	}
	for i := range a {
		if normLit(a[i]) != normLit(b[i]) {
			return false
		}
	}
	return true
}

// isPrefixBOMAside: got is a leading portion of in, a byte-order mark aside.
func isPrefixBOMAside(got, in []byte) bool {
	if bytes.HasPrefix(in, got) {
		return true
	}
	if bytes.HasPrefix(in, bom) && bytes.HasPrefix(in[len(bom):], got) {
		return true
	}
	return false
}

func isWholeBOMAside(got, in []byte) bool {
	return bytes.Equal(got, in) || (bytes.HasPrefix(in, bom) && bytes.Equal(got, in[len(bom):]))
}

var nValid, nInvalid, nWithImports, nBOM, nSyntaxErr int64

func call(in []byte, reportSyntax bool) (data []byte, list []string, err error, panicked bool) {
	pv, st := vlib.Try(func() {
		data, err = imports.ReadImports(bytes.NewReader(in), reportSyntax, &list)
	})
	if pv != nil {
		report("readimports-panic", in, fmt.Sprintf("reportSyntaxError=%v panic: %v at %s", reportSyntax, pv, vlib.RepoFrame(st)))
		return nil, nil, nil, true
	}
	return
}

func checkInput(in []byte) (valid bool) {
	run.Eval(1)
	valid = fullyValid(in)
	dT, lT, eT, p1 := call(in, true)
	dF, lF, eF, p2 := call(in, false)
	if p1 || p2 {
		return
	}
	// every input: returned bytes are read from the input
	if !isPrefixBOMAside(dT, in) {
		report("returned-bytes-not-from-input", in, fmt.Sprintf("reportSyntaxError=true returned %s which is not a leading portion of the input", vlib.Q(dT)))
	}
	if !isPrefixBOMAside(dF, in) {
		report("returned-bytes-not-from-input", in, fmt.Sprintf("reportSyntaxError=false returned %s which is not a leading portion of the input", vlib.Q(dF)))
	}
	// Syntax errors not requested: no error, and if the scan found a problem the whole input.
	// Decided without looking at which error value the implementation uses: on NUL-free input
	// (a NUL byte is its own error class, reported in both modes) reportSyntaxError=false must
	// never return an error, and whenever reportSyntaxError=true returns one, it must return
	// the whole input.
	hasNUL := bytes.IndexByte(in, 0) >= 0
	if eT != nil {
		atomic.AddInt64(&nSyntaxErr, 1)
	}
	switch {
	case hasNUL:
		if eF != nil && eF.Error() != "unexpected NUL in input" {
			report("syntax-error-reported-when-not-requested", in, fmt.Sprintf("reportSyntaxError=false returned error %v", eF))
		}
		if eF != nil {
			run.Count("nul_error_in_both_modes", 1)
		}
	case eF != nil:
		report("syntax-error-reported-when-not-requested", in, fmt.Sprintf("reportSyntaxError=false returned error %v (reportSyntaxError=true: %v)", eF, eT))
	case eT != nil && !isWholeBOMAside(dF, in):
		report("not-whole-input-on-syntax-error", in, fmt.Sprintf("reportSyntaxError=true reports %v, but reportSyntaxError=false returned %d of %d bytes: %s", eT, len(dF), len(in), vlib.Q(dF)))
	}
	if !valid {
		atomic.AddInt64(&nInvalid, 1)
		return
	}
	atomic.AddInt64(&nValid, 1)
	if bytes.HasPrefix(in, bom) {
		atomic.AddInt64(&nBOM, 1)
	}
	ref, err := refImports(in)
	if err != nil {
		run.Inconclusive(fmt.Sprintf("go/parser accepts the file but ImportsOnly fails on %s: %v", vlib.Q(in), err))
		return
	}
	if len(ref) > 0 {
		atomic.AddInt64(&nWithImports, 1)
	}
	for _, m := range []struct {
		name string
		d    []byte
		l    []string
		e    error
	}{{"true", dT, lT, eT}, {"false", dF, lF, eF}} {
		if m.e != nil {
			report("error-on-valid-file", in, fmt.Sprintf("reportSyntaxError=%s: go/parser accepts the file but ReadImports returned error %v", m.name, m.e))
			continue
		}
		if !eqStrings(m.l, ref) {
			report("imports-differ-from-go-parser", in, fmt.Sprintf("reportSyntaxError=%s: ReadImports %q, go/parser %q", m.name, m.l, ref))
			continue
		}
		pref, perr := refImports(m.d)
		if perr != nil {
			report("prefix-does-not-parse", in, fmt.Sprintf("reportSyntaxError=%s: returned prefix %s: go/parser ImportsOnly: %v", m.name, vlib.Q(m.d), perr))
		} else if !eqStrings(pref, ref) {
			report("prefix-parses-to-other-imports", in, fmt.Sprintf("reportSyntaxError=%s: returned prefix %s parses to %q, file to %q", m.name, vlib.Q(m.d), pref, ref))
		} else if !fullyValid(m.d) {
			// the prefix of a valid file holds only the package clause, the
			// imports and trailing blanks/comments: it must itself parse cleanly
			report("prefix-has-parse-errors", in, fmt.Sprintf("reportSyntaxError=%s: returned prefix %s is not accepted by go/parser (it contains more than the import section)", m.name, vlib.Q(m.d)))
		}
	}
	return
}

func main() {
	vlib.Main("C18", "exploration", 10*time.Minute, func(r *vlib.Run) {
		run = r
		if p := vlib.ReplayPath(); p != "" {
			var c tcase
			if err := vlib.LoadReplayCase(p, &c); err != nil {
				r.Inconclusive("cannot load replay: " + err.Error())
				return
			}
			in, _ := hex.DecodeString(c.InputHex)
			checkInput(in)
			r.DistinctBulk(2)
			return
		}
		r.Rule("grammar-generated Go files (optional BOM, leading comments, package clause, 0-8 import declarations: single/grouped/empty group, named/dot/blank, raw and interpreted strings with escapes, comments and ';' between tokens, CRLF, now and then a comment or path of 4080-20000 bytes (around and beyond a reader's 4096-byte buffer); then arbitrary declarations); a file is in the 'valid' domain iff the full go/parser accepts it. Arbitrary bytes: random strings, every truncation of sampled valid files, byte-level mutations. Non-trivial = distinct valid file with at least one import, or distinct invalid input on which ReadImports reports a syntax error.")
		r.Assume("go/parser (Go 1.23 standard library) decides validity and gives the reference import list")
		W := runtime.NumCPU()
		guard := vlib.NewStallGuard(r, W, 30*time.Second, "readimports-does-not-terminate", func(in []byte) any {
			return tcase{Kind: "readimports-does-not-terminate", InputHex: hex.EncodeToString(in), Input: vlib.Q(in)}
		})
		nfiles := r.Pick(150000, 3000000)
		var keepMu sync.Mutex
		var keep [][]byte
		vlib.Parallel(W, W, func(w int) {
			g := &gen{r: r.Rand(fmt.Sprintf("files-%d", w))}
			for i := w; i < nfiles; i += W {
				f := g.file()
				guard.Begin(w, f)
				valid := checkInput(f)
				guard.End(w)
				if valid {
					if l, _ := refImports(f); len(l) > 0 {
						r.DistinctBytes(f)
					}
					if i%97 == 0 {
						keepMu.Lock()
						if len(keep) < r.Pick(300, 3000) {
							keep = append(keep, f)
						}
						keepMu.Unlock()
					}
					if i < 4 {
						r.Sample(map[string]any{"kind": "valid-file", "source": string(f)})
					}
				}
			}
		})
		// truncations of valid files at every offset + mutations + random bytes
		var nArb int64
		guardT := vlib.NewStallGuard(r, len(keep)+1, 30*time.Second, "readimports-does-not-terminate", func(in []byte) any {
			return tcase{Kind: "readimports-does-not-terminate", InputHex: hex.EncodeToString(in), Input: vlib.Q(in)}
		})
		vlib.Parallel(len(keep), W, func(k int) {
			f := keep[k]
			step := 1
			if len(f) > 2000 {
				step = len(f) / 200 // long files (buffer-boundary comments): a sample of the offsets
			}
			for cut := 0; cut <= len(f); cut += step {
				guardT.Begin(k, f[:cut])
				checkInput(f[:cut])
				guardT.End(k)
				atomic.AddInt64(&nArb, 1)
			}
		})
		nmut := r.Pick(200000, 4000000)
		vlib.Parallel(W, W, func(w int) {
			rng := r.Rand(fmt.Sprintf("mut-%d", w))
			g := &gen{r: rng}
			for i := w; i < nmut; i += W {
				var in []byte
				if rng.Intn(5) == 0 {
					in = make([]byte, rng.Intn(60))
					for j := range in {
						in[j] = alphaBytes[rng.Intn(len(alphaBytes))]
					}
				} else {
					in = mutateBytes(rng, g.file())
				}
				guard.Begin(w, in)
				valid := checkInput(in)
				guard.End(w)
				if !valid {
					r.DistinctBytes(in)
				}
				atomic.AddInt64(&nArb, 1)
				if i < 2 {
					r.Sample(map[string]any{"kind": "arbitrary-bytes", "input": vlib.Q(in)})
				}
			}
		})
		// native fuzzing as an additional input generator (thorough tier): failing inputs are re-run through
		// the deterministic oracle above, which is what reports them
		if !r.Quick() {
			inputs, execs, ok := vlib.GoFuzz("checks/c18", "FuzzReadImports", 60*time.Second)
			r.Set("native_fuzzing", map[string]any{"target": "FuzzReadImports", "ran": ok, "last_progress_line": execs, "failing_inputs": len(inputs)})
			for _, args := range inputs {
				if len(args) == 1 {
					checkInput(args[0])
				}
			}
		}
		r.Set("valid_files", atomic.LoadInt64(&nValid))
		r.Set("valid_files_with_imports", atomic.LoadInt64(&nWithImports))
		r.Set("valid_files_with_bom", atomic.LoadInt64(&nBOM))
		r.Set("inputs_rejected_by_go_parser", atomic.LoadInt64(&nInvalid))
		r.Set("inputs_with_syntax_error_from_readimports", atomic.LoadInt64(&nSyntaxErr))
		r.Set("arbitrary_inputs", atomic.LoadInt64(&nArb))
		if atomic.LoadInt64(&nWithImports) < 100 || atomic.LoadInt64(&nBOM) < 10 {
			r.Inconclusive("generator produced too few valid files with imports / with BOM")
		}
	})
}
