package main

import (
	"testing"

	"verif/vlib"
)

// FuzzReadImports: C18's go/parser oracle as a native fuzz target.
func FuzzReadImports(f *testing.F) {
	for _, s := range []string{"package p\nimport \"a\"\n", "\xef\xbb\xbfpackage p; import (x \"a\"; . `b`)\nvar v int\n", "package p// c\nimport/**/\"x\"\n", "package p\nimport \"a\\\"b\"\nfunc f(){}"} {
		f.Add([]byte(s))
	}
	f.Fuzz(func(t *testing.T, in []byte) {
		vlib.FuzzFail = func(msg string) { t.Fatalf("%s (input %q)", msg, in) }
		checkInput(in)
	})
}
