// C13: cache Trim removes only stale entries and only when a trim is due.
// Oracle: independent keep / remove / don't-care classification of every file
// from the recorded history of stores and lookups (virtual clock installed
// through the verif-tagged VerifSetNow hook; a second workload uses the real
// clock with ages simulated through mtimes).
package main

import (
	"bytes"
	"crypto/sha256"
	"fmt"
	"math/rand"
	"os"
	"path/filepath"
	"runtime"
	"sort"
	"strconv"
	"strings"
	"sync"
	"sync/atomic"
	"time"
	_ "time/tzdata"

	"github.com/rogpeppe/go-internal/cache"

	"verif/vlib"
)

const (
	hour = time.Hour
	day  = 24 * time.Hour
)

type tcase struct {
	Kind    string   `json:"kind"`
	History int      `json:"history_index"`
	Clock   string   `json:"clock"`
	Events  []string `json:"events"`
	Detail  string   `json:"detail"`
}

var (
	run      *vlib.Run
	kindMu   sync.Mutex
	kindSeen = map[string]int{}
)

func limited(kind string) bool {
	kindMu.Lock()
	defer kindMu.Unlock()
	kindSeen[kind]++
	return kindSeen[kind] > 4
}

type fileState struct {
	exists  bool
	lastUse time.Time // latest store or successful lookup
	entry   bool      // *-a or *-d inside one of the 256 sub-directories
	content []byte
}

type world struct {
	dir    string
	c      *cache.Cache
	now    time.Time
	dst    bool // the clock is in a zone with daylight saving time, started within 5 days before a transition
	phase  int  // 1: between events of the first round, 2: last step before the first Trim
	hook   bool
	files  map[string]*fileState // path relative to dir
	ids    []cache.ActionID
	cur    map[int][]byte // id index -> content its index entry points to
	events []string
	hidx   int
	rng    *rand.Rand
	nReloc int
}

func (w *world) logf(f string, a ...any) {
	w.events = append(w.events, fmt.Sprintf("[t=%s] ", w.now.UTC().Format("01-02 15:04:05.000000000"))+fmt.Sprintf(f, a...))
}

func (w *world) fail(kind, detail string) {
	if limited(kind) {
		run.Count("suppressed_duplicate_reports_"+kind, 1)
		return
	}
	clock := "hooked"
	if !w.hook {
		clock = "real"
	}
	run.Violation(fmt.Sprintf("%s clock=%s history=%d seed=%d", kind, clock, w.hidx, run.Seed),
		fmt.Sprintf("%s: %s (history %d, %s clock)", kind, detail, w.hidx, clock),
		tcase{kind, w.hidx, clock, append([]string{}, w.events...), detail})
}

func rel(id [32]byte, suffix string) string {
	return filepath.Join(fmt.Sprintf("%02x", id[0]), fmt.Sprintf("%x-%s", id[:], suffix))
}

func (w *world) touch(relp string, content []byte) {
	fs := w.files[relp]
	if fs == nil {
		fs = &fileState{entry: true}
		w.files[relp] = fs
	}
	fs.exists = true
	fs.lastUse = w.now
	if content != nil {
		fs.content = content
	}
}

func (w *world) put(i int, content []byte) {
	w.logf("PutBytes(id%d, %q)", i, content)
	if err := w.c.PutBytes(w.ids[i], content); err != nil {
		w.fail("put-failed", err.Error())
		return
	}
	h := sha256.Sum256(content)
	w.touch(rel(w.ids[i], "a"), nil)
	w.touch(rel(h, "d"), content)
	w.cur[i] = content
}

// relocate moves the files of entry i somewhere else and leaves symbolic links in their place (what a
// deduplication or space-saving tool does). Nothing changes for the cache: the entry is used when it is
// looked up (which refreshes the file the link points to) and its age is that file's, not the link's.
func (w *world) relocate(i int) {
	c, ok := w.cur[i]
	if !ok {
		return
	}
	h := sha256.Sum256(c)
	side := w.dir + "-elsewhere"
	os.MkdirAll(side, 0o777)
	for _, relp := range []string{rel(w.ids[i], "a"), rel(h, "d")} {
		p := filepath.Join(w.dir, relp)
		st, err := os.Lstat(p)
		if err != nil || !st.Mode().IsRegular() {
			continue
		}
		w.nReloc++
		target := filepath.Join(side, fmt.Sprintf("%d-%s", w.nReloc, filepath.Base(relp)))
		if os.Rename(p, target) != nil {
			continue
		}
		if err := os.Symlink(target, p); err != nil {
			os.Rename(target, p)
			continue
		}
		atomic.AddInt64(&nRelocated, 1)
		w.logf("relocated %s (symbolic link left in place)", relp)
	}
}

var nRelocated int64

func (w *world) lookup(i int) {
	idx := w.files[rel(w.ids[i], "a")]
	kind := w.rng.Intn(4)
	names := []string{"Get", "GetBytes", "GetFile", "Get+OutputFile"}
	w.logf("%s(id%d)", names[kind], i)
	var err error
	var e cache.Entry
	switch kind {
	case 0:
		e, err = w.c.Get(w.ids[i])
	case 1:
		_, e, err = w.c.GetBytes(w.ids[i])
	case 2:
		_, e, err = w.c.GetFile(w.ids[i])
	default:
		e, err = w.c.Get(w.ids[i])
		if err == nil {
			w.c.OutputFile(e.OutputID)
		}
	}
	if idx == nil || !idx.exists {
		return
	}
	// the index entry exists, so it was looked up (used) at this time
	idx.lastUse = w.now
	if kind != 0 {
		if c, ok := w.cur[i]; ok {
			h := sha256.Sum256(c)
			if d := w.files[rel(h, "d")]; d != nil && d.exists {
				d.lastUse = w.now
				if err != nil {
					w.fail("lookup-of-present-entry-failed", fmt.Sprintf("%s(id%d) = %v although index entry and output file exist", names[kind], i, err))
				}
			}
		}
	}
	_ = e
}

var steps = []time.Duration{1, time.Second, 30 * time.Minute, hour - 1, hour, hour + 1, 90 * time.Minute, 2*hour - 1, 2 * hour, 23 * hour, day, 2 * day, 4 * day, 5*day - hour, 5*day - 1, 5 * day, 5*day + 1, 5*day + hour - 1, 5*day + hour, 5*day + hour + 1, 6 * day, 30 * day}

func (w *world) advance() {
	k := w.rng.Intn(len(steps))
	d := steps[k]
	if !w.hook {
		return
	}
	if w.dst && w.phase == 1 && d > 2*hour {
		// daylight-saving histories: small steps between the events of the first round ...
		d = steps[k%9]
	} else if w.dst && w.phase == 2 && (d < 5*day-hour || d > 5*day+hour+1) {
		// ... and about five days before its Trim, whose five-day window then straddles the transition
		d = steps[13+k%7]
	}
	w.now = w.now.Add(d)
}

type trimTxt struct {
	desc    string
	content *string // nil = absent
	expect  int     // 0 must skip, 1 must run, 2 either
}

func (w *world) genTrimTxt() trimTxt {
	n := w.now.Unix()
	s := func(x string) *string { return &x }
	// sub-second part of now matters for the comparison: d = now - Unix(t,0)
	frac := time.Duration(w.now.Nanosecond())
	opts := []trimTxt{
		{"absent", nil, 1},
		{"empty", s(""), 1},
		{"garbage", s("not a number"), 1},
		{"garbage-float", s("12345.6"), 1},
		{"huge", s("99999999999999999999"), 1},
		{"negative", s("-5"), 1},
		{"zero", s("0"), 1},
		{"now", s(fmt.Sprint(n)), 0},
		{"now with spaces", s(fmt.Sprintf("  %d \n", n)), 0},
		{"now-1h", s(fmt.Sprint(n - 3600)), 0},
		{"now-23h59m59s", s(fmt.Sprint(n - 86399)), 0},
		{"now-25h", s(fmt.Sprint(n - 90000)), 1},
		{"now-24h-1s", s(fmt.Sprint(n - 86401)), 1},
		{"now-10d", s(fmt.Sprint(n - 864000)), 1},
		{"now+30m", s(fmt.Sprint(n + 1800)), 2},
		{"now+2h", s(fmt.Sprint(n + 7200)), 1},
		{"now+1h+2s", s(fmt.Sprint(n + 3602)), 1},
		{"maxint64", s("9223372036854775807"), 1},
	}
	// exactly 24h: d = 24h + frac >= 24h -> due
	opts = append(opts, trimTxt{"now-24h", s(fmt.Sprint(n - 86400)), 1})
	// a recent time followed by junk is a corrupt record like any other: the trim is due
	for _, junk := range []string{".500", " 1600000000", "\x00\x00\x00\x00", "<<<<<<< HEAD", "\ngarbage\n", "e3", "x"} {
		opts = append(opts, trimTxt{"recent time followed by junk", s(fmt.Sprint(n-600) + junk), 1})
	}
	_ = frac
	if !w.hook {
		// real clock: keep clear of the boundaries
		opts = []trimTxt{opts[0], opts[1], opts[2], opts[5], {"now-10m", s(fmt.Sprint(n - 600)), 0}, {"now-23h", s(fmt.Sprint(n - 82800)), 0}, opts[11], opts[13], opts[15]}
	}
	return opts[w.rng.Intn(len(opts))]
}

func (w *world) addNonEntries() {
	old := w.now.Add(-400 * day)
	mk := func(relp, content string) {
		p := filepath.Join(w.dir, relp)
		os.MkdirAll(filepath.Dir(p), 0o777)
		os.WriteFile(p, []byte(content), 0o666)
		os.Chtimes(p, old, old)
		w.files[relp] = &fileState{exists: true, entry: false, content: []byte(content), lastUse: old}
	}
	cands := [][2]string{
		{"README", "This directory holds cached build artifacts\n"},
		{"fuzz/corpus/abc-a", "fuzz data\n"},
		{"fuzz/x-d", "fuzz\n"},
		{"top-a", "top level file that looks like an entry\n"},
		{"00/notanentry", "x"},
		{"ab/abcdef-b", "x"},
		{"ff/something-a.tmp", "x"},
		{"7f/-ad", "x"},
		{"10/d", "x"},
		{"foreign.txt", "foreign\n"},
	}
	for _, c := range cands {
		if w.rng.Intn(2) == 0 {
			mk(c[0], c[1])
		}
	}
	w.logf("non-entry files (400 days old) placed")
}

func (w *world) snapshotExists() map[string]bool {
	m := map[string]bool{}
	for relp := range w.files {
		_, err := os.Lstat(filepath.Join(w.dir, relp))
		m[relp] = err == nil
	}
	return m
}

var nUnwritable int64

var nRan, nSkipped, nRemoved, nKept, nMustKeep, nMustRemove, nDontCare, nDST int64

func (w *world) trim() {
	tt := w.genTrimTxt()
	tp := filepath.Join(w.dir, "trim.txt")
	var before []byte
	if tt.content == nil {
		os.Remove(tp)
	} else {
		before = []byte(*tt.content)
		os.WriteFile(tp, before, 0o666)
	}
	// now and then the record cannot be read or rewritten at all (trim.txt is a non-empty directory,
	// or a dangling symbolic link into a directory that does not exist): a trim is then due, it
	// must still remove what is stale, and only the recording can fail
	unwritable := w.rng.Intn(12) == 0
	if unwritable {
		os.RemoveAll(tp)
		if w.rng.Intn(2) == 0 {
			os.MkdirAll(filepath.Join(tp, "occupied"), 0o777)
			tt = trimTxt{desc: "a non-empty directory", expect: 1}
		} else {
			os.Symlink(filepath.Join(w.dir, "no-such-dir", "t"), tp)
			tt = trimTxt{desc: "a dangling symbolic link", expect: 1}
		}
		before = nil
	}
	w.logf("trim.txt := %s; Trim()", tt.desc)
	if !w.hook {
		w.now = time.Now()
	}
	t0 := time.Now()
	if err := w.c.Trim(); err != nil && !unwritable {
		w.fail("trim-error", err.Error())
		return
	}
	t1 := time.Now()
	after, aerr := os.ReadFile(tp)
	var ran bool
	if unwritable {
		os.RemoveAll(tp)
		atomic.AddInt64(&nUnwritable, 1)
		ran = true // due by the rules; what it removed is judged below, the record cannot be
	} else if w.hook {
		ran = aerr == nil && string(after) == fmt.Sprint(w.now.Unix())
		if ran && tt.content != nil && string(before) == string(after) {
			ran = false // indistinguishable from "did nothing": judged by the skip rules below
			if tt.expect == 1 {
				ran = true
			}
		}
	} else {
		if v, err := strconv.ParseInt(strings.TrimSpace(string(after)), 10, 64); aerr == nil && err == nil && v >= t0.Unix() && v <= t1.Unix() && (tt.content == nil || string(before) != string(after)) {
			ran = true
		}
	}
	ex := w.snapshotExists()
	switch {
	case tt.expect == 0 && ran:
		w.fail("trim-ran-although-recent", fmt.Sprintf("trim.txt was %q (a trim completed less than a day ago) but Trim ran (trim.txt now %q)", before, after))
	case tt.expect == 1 && !ran:
		w.fail("trim-did-not-run-although-due", fmt.Sprintf("trim.txt was %s (%q) so a trim is due, but trim.txt now holds %q", tt.desc, before, after))
	}
	if !ran {
		atomic.AddInt64(&nSkipped, 1)
		if tt.content != nil && !bytes.Equal(before, after) && tt.expect != 1 {
			w.fail("skipped-trim-changed-trim-txt", fmt.Sprintf("trim.txt %q -> %q", before, after))
		}
	} else {
		atomic.AddInt64(&nRan, 1)
	}
	var paths []string
	for p := range w.files {
		paths = append(paths, p)
	}
	sort.Strings(paths)
	for _, p := range paths {
		fs := w.files[p]
		if !fs.exists {
			continue
		}
		gone := !ex[p]
		age := w.now.Sub(fs.lastUse)
		if !fs.entry {
			if gone {
				w.fail("non-entry-file-removed", fmt.Sprintf("%s is not a cache entry but was removed by Trim", p))
			} else if b, _ := os.ReadFile(filepath.Join(w.dir, p)); !bytes.Equal(b, fs.content) {
				w.fail("non-entry-file-changed", fmt.Sprintf("%s changed", p))
			}
			continue
		}
		margin := time.Duration(0)
		if !w.hook {
			margin = 10 * time.Minute
		}
		switch {
		case !ran:
			if gone {
				w.fail("removed-although-no-trim-due", fmt.Sprintf("%s (last use %v ago) was removed although a trim completed less than a day ago", p, age))
			}
		case age < 5*day-margin:
			atomic.AddInt64(&nMustKeep, 1)
			if gone {
				w.fail("recently-used-entry-removed", fmt.Sprintf("%s was stored or looked up %v ago (< 5 days) but Trim removed it", p, age))
			}
		case age > 5*day+hour+margin:
			atomic.AddInt64(&nMustRemove, 1)
			if !gone {
				w.fail("stale-entry-survived", fmt.Sprintf("%s was last used %v ago (> 5 days + 1 hour) but survived a Trim that ran", p, age))
			}
		default:
			atomic.AddInt64(&nDontCare, 1)
		}
		if gone {
			atomic.AddInt64(&nRemoved, 1)
			fs.exists = false
		} else {
			atomic.AddInt64(&nKept, 1)
		}
	}
}

func runHistory(base string, hidx int, seed int64, hook bool) {
	// the directory's own name is just a name: characters that mean something to a pattern matcher or a
	// formatter must not matter to what Trim scans
	dir := filepath.Join(base, fmt.Sprintf("h%d-%v%s", hidx, hook, []string{"", "", "[ab]", " [x", "?*", "%s%d", "\\q"}[hidx%7]))
	os.MkdirAll(dir, 0o777)
	defer os.RemoveAll(dir)
	defer os.RemoveAll(dir + "-elsewhere")
	c, err := cache.Open(dir)
	if err != nil {
		run.Inconclusive("cache.Open: " + err.Error())
		return
	}
	rng := rand.New(rand.NewSource(seed))
	w := &world{dir: dir, c: c, hook: hook, files: map[string]*fileState{}, cur: map[int][]byte{}, hidx: hidx, rng: rng}
	if hook {
		w.now = time.Unix(1_700_000_000+int64(rng.Intn(1e6)), int64(rng.Intn(1e9)))
		if rng.Intn(4) == 0 {
			w.now = time.Unix(w.now.Unix(), 0)
		}
		if hidx%3 == 1 {
			// every third hooked history runs on the clock of a place with daylight saving time and starts
			// within the five days before one of its 2024 transitions, so that the boundary-heavy steps
			// (5d, 5d+1h, ...) straddle a day of 23, 25 or 23.5 hours: "five days" is 120 elapsed hours.
			zr := rand.New(rand.NewSource(seed ^ 0x5a17))
			zones := []string{"America/New_York", "Europe/Berlin", "Australia/Lord_Howe", "America/Santiago"}
			if loc, err := time.LoadLocation(zones[zr.Intn(len(zones))]); err == nil {
				var trans []time.Time
				t := time.Date(2024, 1, 1, 0, 0, 0, 0, time.UTC)
				_, off := t.In(loc).Zone()
				for i := 0; i < 366*48; i++ {
					t = t.Add(30 * time.Minute)
					if _, o := t.In(loc).Zone(); o != off {
						trans = append(trans, t)
						off = o
					}
				}
				if len(trans) > 0 {
					tr := trans[zr.Intn(len(trans))]
					w.now = tr.Add(-time.Duration(zr.Int63n(int64(5 * day)))).Add(time.Duration(w.now.Nanosecond())).In(loc)
					w.dst = true
					atomic.AddInt64(&nDST, 1)
				}
			}
		}
		c.VerifSetNow(func() time.Time { return w.now })
	} else {
		w.now = time.Now()
	}
	nid := 1 + rng.Intn(5)
	for i := 0; i < nid; i++ {
		w.ids = append(w.ids, cache.ActionID(sha256.Sum256([]byte(fmt.Sprintf("trim-%d-%d", hidx, i)))))
	}
	w.addNonEntries()
	contents := [][]byte{[]byte("alpha\n"), []byte("beta\n"), []byte("delta"), []byte("gamma gamma\n")}
	if !hook {
		// the empty output is created without an explicit timestamp, i.e. with the
		// operating system's clock: only meaningful when the cache uses that clock too
		contents = append(contents, []byte(""))
	}
	rounds := 1 + rng.Intn(3)
	for round := 0; round < rounds; round++ {
		nev := 2 + rng.Intn(10)
		for e := 0; e < nev; e++ {
			i := rng.Intn(nid)
			if hook {
				switch rng.Intn(5) {
				case 0, 1:
					w.put(i, contents[rng.Intn(len(contents))])
				default:
					w.lookup(i)
				}
				if rng.Intn(10) == 0 {
					w.relocate(i)
				}
				if w.phase = 0; round == 0 {
					if w.phase = 1; e == nev-1 {
						w.phase = 2
					}
				}
				w.advance()
				w.phase = 0
			} else {
				// real clock: store, then age the files through their mtimes
				if _, ok := w.cur[i]; !ok || rng.Intn(3) == 0 {
					w.put(i, contents[rng.Intn(len(contents))])
					age := []time.Duration{0, day, 4 * day, 5*day - 20*time.Minute, 5*day + hour + 20*time.Minute, 7 * day, 40 * day}[rng.Intn(7)]
					at := time.Now().Add(-age)
					h := sha256.Sum256(w.cur[i])
					for _, relp := range []string{rel(w.ids[i], "a"), rel(h, "d")} {
						os.Chtimes(filepath.Join(dir, relp), at, at)
						w.files[relp].lastUse = at
					}
					w.logf("aged id%d and its output to %v", i, age)
				} else {
					w.now = time.Now()
					w.lookup(i)
				}
			}
		}
		w.trim()
		if hook {
			w.advance()
		}
	}
	run.Eval(1)
	run.Distinct(fmt.Sprintf("%v|%d", hook, seed))
	if hidx < 2 {
		ev := w.events
		if len(ev) > 20 {
			ev = ev[:20]
		}
		run.Sample(map[string]any{"kind": "history", "clock_hooked": hook, "events": ev})
	}
}

func main() {
	vlib.Main("C13", "exploration", 10*time.Minute, func(r *vlib.Run) {
		run = r
		r.Rule("entry files now and then moved elsewhere with a symbolic link left in place (hooked clock); cache directories whose names contain pattern / format metacharacters in 4 of 7 histories; histories: 1-5 action ids, 1-3 rounds of (2-11 stores/lookups of random kinds, then Trim) with time steps drawn from a boundary-heavy set (1ns, 1h-1ns, 1h, 1h+1ns, 5d-1ns, 5d, 5d+1ns, 5d+1h-1ns, 5d+1h, 5d+1h+1ns, days, months), 19 trim.txt variants, plus a record that can be neither read nor rewritten (a non-empty directory, a dangling symbolic link) (absent, empty, garbage, now, now-23h59m59s, now-24h, now+30m, now+2h, huge, negative, ...), non-entry files 400 days old in and beside the sub-directories. Hooked clock (VerifSetNow) for exact boundaries; every third hooked history on the clock of a zone with daylight saving time (New York, Berlin, Lord Howe, Santiago), started within five days before a 2024 transition and with steps shaped so that the five-day window of its first Trim contains the transition; a second workload with the real clock and ages simulated through mtimes (margins of 10 min). Every history has its own PRNG stream; non-trivial = history with at least one Trim call.")
		r.Assume("a file's last use is the latest store of it or successful lookup touching it (Get: index entry; GetBytes/GetFile/OutputFile: output file too); entries with last use in [5d, 5d+1h] are don't-care; a trim.txt up to one hour in the future may or may not suppress the trim")
		W := runtime.NumCPU()
		base := vlib.Scratch()
		nh := r.Pick(400, 8000)
		vlib.Parallel(nh, W, func(h int) {
			runHistory(base, h, r.SubSeed(fmt.Sprintf("hook-%d", h)), true)
		})
		nr := r.Pick(60, 800)
		vlib.Parallel(nr, W, func(h int) {
			runHistory(base, h, r.SubSeed(fmt.Sprintf("real-%d", h)), false)
		})
		r.Set("trims_ran", atomic.LoadInt64(&nRan))
		r.Set("entry_files_relocated_behind_a_symbolic_link", atomic.LoadInt64(&nRelocated))
		r.Set("trims_with_a_record_that_cannot_be_rewritten", atomic.LoadInt64(&nUnwritable))
		r.Set("trims_skipped", atomic.LoadInt64(&nSkipped))
		r.Set("entry_files_removed", atomic.LoadInt64(&nRemoved))
		r.Set("entry_files_kept", atomic.LoadInt64(&nKept))
		r.Set("judged_must_keep", atomic.LoadInt64(&nMustKeep))
		r.Set("histories_on_a_daylight_saving_clock", atomic.LoadInt64(&nDST))
		r.Set("judged_must_remove", atomic.LoadInt64(&nMustRemove))
		r.Set("judged_dont_care", atomic.LoadInt64(&nDontCare))
		if atomic.LoadInt64(&nRan) < 20 || atomic.LoadInt64(&nSkipped) < 20 || atomic.LoadInt64(&nMustKeep) < 20 || atomic.LoadInt64(&nMustRemove) < 20 {
			r.Inconclusive("too few trims ran/skipped or too few files in the keep/remove classes")
		}
	})
}
