// C10: par.Cache computes each key once and publishes the result safely.
// Oracle: monitors inside f (call counts per key, a fresh result object per
// call published in the monitor, a "completed" flag set as f's last action);
// after every Do / Get the returned value must be the published object of a
// completed call (or nil for Get); "Get never blocks" is turned into a
// deadlock by a rendezvous (f waits inside until another goroutine's Get has
// returned); termination as in C09; Go race detector on the unmodified code.
package main

import (
	"encoding/json"
	"fmt"
	"math/rand"
	"os"
	"path/filepath"
	"runtime"
	"strconv"
	"strings"
	"sync"
	"sync/atomic"
	"time"

	"github.com/rogpeppe/go-internal/par"

	"verif/vlib"
)

type result struct {
	key    int
	serial int64
	pad    [4]int64 // written before publication, read by consumers (race detector bait)
}

type spec struct {
	Seed    int64 `json:"seed"`
	G       int   `json:"goroutines"`
	K       int   `json:"keys"`
	Ops     int   `json:"ops_per_goroutine"`
	KeyKind int   `json:"key_kind"` // 0 string, 1 pointer, 2 int
	Rendez  bool  `json:"rendezvous_get_inside_f"`
	Nested  bool  `json:"nested_do"`
	SlowF   bool  `json:"slow_f"`
	// NilKeys: bit k set = the genuine result of f(key k) is nil (testscript caches the error of an
	// executable lookup this way: nil is the common answer). Computed once all the same.
	NilKeys int `json:"keys_whose_result_is_nil"`
	// ErrKeys: bit k set = the genuine result of f(key k) is a value that implements error (a cached
	// failure is a result like any other: computed once, published, returned to everybody)
	ErrKeys int `json:"keys_whose_result_is_an_error_value"`
}

type violationRec struct {
	Kind   string `json:"kind"`
	Detail string `json:"detail"`
	Spec   spec   `json:"spec"`
}

type batchOut struct {
	Runs       int64          `json:"runs"`
	DoCalls    int64          `json:"do_calls"`
	GetCalls   int64          `json:"get_calls"`
	GetNil     int64          `json:"get_nil"`
	GetValue   int64          `json:"get_value"`
	Waited     int64          `json:"do_calls_that_found_f_in_progress"`
	Rendezvous int64          `json:"rendezvous_completed"`
	FaultRuns  int64          `json:"runs_in_which_f_did_not_return"`
	Violations []violationRec `json:"violations"`
	LastSpec   spec           `json:"last_spec"`
}

var (
	outMu    sync.Mutex
	flushOut func()
)

func perturb(x uint64) {
	switch x % 6 {
	case 0:
		runtime.Gosched()
	case 1:
		for t := time.Now(); time.Since(t) < time.Duration(x%30)*time.Microsecond; {
		}
	case 2:
		time.Sleep(time.Duration(x%150) * time.Microsecond)
	}
}

type keyPtr struct{ n int }

// nilKeys is the NilKeys mask of the run in progress (runs of a batch are sequential).
var nilKeys int

// errValue is how the result of a key in ErrKeys travels through the cache: a struct value implementing error.
type errValue struct{ r *result }

func (e errValue) Error() string { return fmt.Sprintf("result of key %d", e.r.key) }

func oneRun(sp spec, out *batchOut) {
	nilKeys = sp.NilKeys
	var c par.Cache
	calls := make([]int32, sp.K)
	inF := make([]int32, sp.K)
	completed := make([]int32, sp.K)
	published := make([]atomic.Pointer[result], sp.K)
	getDone := make([]chan struct{}, sp.K) // rendezvous: closed when some Get(key) returned while f(key) was inside
	getOnce := make([]sync.Once, sp.K)
	for i := range getDone {
		getDone[i] = make(chan struct{})
	}
	var keys []any
	ptrs := make([]*keyPtr, sp.K)
	for i := 0; i < sp.K; i++ {
		switch sp.KeyKind {
		case 0:
			keys = append(keys, fmt.Sprintf("exec:prog%d", i))
		case 1:
			ptrs[i] = &keyPtr{i}
			keys = append(keys, ptrs[i])
		default:
			keys = append(keys, i)
		}
	}
	viol := func(kind, detail string) {
		outMu.Lock()
		out.Violations = append(out.Violations, violationRec{kind, detail, sp})
		if flushOut != nil {
			flushOut()
		}
		os.Exit(0)
	}
	var serial int64
	var mkF func(k int, depth int) func() any
	mkF = func(k int, depth int) func() any {
		return func() any {
			if n := atomic.AddInt32(&calls[k], 1); n > 1 {
				viol("f-called-twice", fmt.Sprintf("f for key %d invoked %d times", k, n))
			}
			atomic.StoreInt32(&inF[k], 1)
			x := uint64(sp.Seed)*2654435761 + uint64(k)*40503
			perturb(x)
			if sp.SlowF {
				time.Sleep(time.Duration(200+x%800) * time.Microsecond)
			}
			if sp.Nested && depth < 2 && k+1 < sp.K {
				// nested Do on another key from inside f
				v := c.Do(keys[k+1], mkF(k+1, depth+1))
				checkValue("nested Do", k+1, v, false, completed, published, viol)
			}
			if sp.Rendez && k == 0 {
				// wait inside f until a Get(key 0) issued by another goroutine has returned:
				// a Get that blocks on the computation can never return => deadlock
				<-getDone[0]
				outMu.Lock()
				out.Rendezvous++
				outMu.Unlock()
			}
			if sp.NilKeys&(1<<k) != 0 {
				perturb(x >> 9)
				atomic.StoreInt32(&inF[k], 0)
				atomic.StoreInt32(&completed[k], 1)
				return nil
			}
			r := &result{key: k, serial: atomic.AddInt64(&serial, 1)}
			for i := range r.pad {
				r.pad[i] = int64(k)*1000 + int64(i)
			}
			published[k].Store(r)
			perturb(x >> 9)
			atomic.StoreInt32(&inF[k], 0)
			atomic.StoreInt32(&completed[k], 1) // last action of f
			if sp.ErrKeys&(1<<k) != 0 {
				return errValue{r}
			}
			return r
		}
	}
	var wg sync.WaitGroup
	var doCalls, getCalls, getNil, getVal, waited int64
	for g := 0; g < sp.G; g++ {
		wg.Add(1)
		go func(g int) {
			defer wg.Done()
			rng := rand.New(rand.NewSource(sp.Seed*31 + int64(g)))
			for i := 0; i < sp.Ops; i++ {
				k := rng.Intn(sp.K)
				if sp.Rendez && g == 0 && i == 0 {
					k = 0
				}
				isGet := rng.Intn(3) == 0
				if sp.Rendez && g == 0 && i == 0 {
					isGet = false // goroutine 0 starts the computation of key 0
				}
				if sp.Rendez && g != 0 && i == 0 {
					// the goroutines other than 0 start with Gets of key 0 until f is inside, then release it
					for atomic.LoadInt32(&inF[0]) == 0 && atomic.LoadInt32(&completed[0]) == 0 {
						runtime.Gosched()
					}
					v := c.Get(keys[0])
					atomic.AddInt64(&getCalls, 1)
					if atomic.LoadInt32(&completed[0]) == 0 && v != nil {
						viol("get-returned-value-before-f-completed", "Get(key 0) returned a non-nil value while f(key 0) had not completed")
					}
					checkValue("Get", 0, v, true, completed, published, viol)
					getOnce[0].Do(func() { close(getDone[0]) })
					continue
				}
				if isGet {
					doneBefore := atomic.LoadInt32(&completed[k]) == 1
					v := c.Get(keys[k])
					atomic.AddInt64(&getCalls, 1)
					if v == nil && sp.NilKeys&(1<<k) == 0 {
						atomic.AddInt64(&getNil, 1)
						_ = doneBefore // nil after completion is only wrong if some Do(k) had RETURNED before; checked below via doReturned
					} else {
						atomic.AddInt64(&getVal, 1)
					}
					checkValue("Get", k, v, true, completed, published, viol)
				} else {
					if atomic.LoadInt32(&inF[k]) == 1 {
						atomic.AddInt64(&waited, 1)
					}
					v := c.Do(keys[k], mkF(k, 0))
					atomic.AddInt64(&doCalls, 1)
					checkValue("Do", k, v, false, completed, published, viol)
					// after a Do returned, Get must deliver the same value
					if v2 := c.Get(keys[k]); v2 != v {
						viol("get-after-do-differs", fmt.Sprintf("Do(key %d) returned %p but a following Get returned %v", k, v, v2))
					}
				}
				perturb(uint64(rng.Int63()))
			}
		}(g)
	}
	wg.Wait()
	for k := 0; k < sp.K; k++ {
		if n := atomic.LoadInt32(&calls[k]); n > 1 {
			viol("f-called-twice", fmt.Sprintf("f for key %d invoked %d times", k, n))
		}
	}
	outMu.Lock()
	out.Runs++
	out.DoCalls += doCalls
	out.GetCalls += getCalls
	out.GetNil += getNil
	out.GetValue += getVal
	out.Waited += waited
	outMu.Unlock()
}

func checkValue(api string, k int, v any, nilOK bool, completed []int32, published []atomic.Pointer[result], viol func(kind, detail string)) {
	if nilKeys&(1<<k) != 0 {
		if v != nil {
			viol("value-for-a-nil-result", fmt.Sprintf("%s(key %d) returned %v (%T) although the result f computed is nil", api, k, v, v))
		}
		return
	}
	if v == nil {
		if !nilOK {
			viol("do-returned-nil", fmt.Sprintf("%s(key %d) returned nil although f returns a non-nil result", api, k))
		}
		return
	}
	if e, isErr := v.(errValue); isErr {
		v = e.r
	}
	r, ok := v.(*result)
	if !ok {
		viol("foreign-value", fmt.Sprintf("%s(key %d) returned a %T", api, k, v))
		return
	}
	if atomic.LoadInt32(&completed[k]) == 0 {
		viol("returned-before-f-completed", fmt.Sprintf("%s(key %d) returned a value before the single invocation of f had completed", api, k))
	}
	if p := published[k].Load(); p != r {
		viol("not-the-value-f-returned", fmt.Sprintf("%s(key %d) returned %p (key %d serial %d), f published %p", api, k, r, r.key, r.serial, p))
	}
	// read the fields written before publication (a missing happens-before edge is what the race detector reports)
	if r.key != k || r.pad[3] != int64(k)*1000+3 {
		viol("value-of-another-key", fmt.Sprintf("%s(key %d) returned the result of key %d", api, k, r.key))
	}
}

// faultRun: the single invocation of f for a key does not return (it panics and its caller recovers, or
// it ends its goroutine with runtime.Goexit, which is what t.FailNow inside f does). f has then been
// invoked exactly once and has produced no value: no later Do for the key may invoke f again or return
// a value, and Get returns nil. (On the tree as it is, later Do calls for that key block for ever; the
// three probing goroutines are left behind blocked, which is harmless in this short-lived process.)
func faultRun(seed int64, out *batchOut) {
	var c par.Cache
	var calls int32
	viol := func(kind, detail string) {
		outMu.Lock()
		out.Violations = append(out.Violations, violationRec{kind, detail, spec{Seed: seed}})
		if flushOut != nil {
			flushOut()
		}
		os.Exit(0)
	}
	mode := []string{"panics", "calls runtime.Goexit"}[seed&1]
	done := make(chan struct{})
	go func() {
		defer close(done)
		defer func() { recover() }()
		c.Do("key", func() any {
			atomic.AddInt32(&calls, 1)
			perturb(uint64(seed))
			if seed&1 == 0 {
				panic("injected failure of f")
			}
			runtime.Goexit()
			return nil
		})
	}()
	<-done
	second := make(chan any, 3)
	for i := 0; i < 3; i++ {
		go func() {
			second <- c.Do("key", func() any {
				atomic.AddInt32(&calls, 1)
				return "value of a second invocation"
			})
		}()
	}
	// observation window only: nothing is concluded from the probes staying blocked
	select {
	case v := <-second:
		viol("f-invoked-again-after-it-did-not-return", fmt.Sprintf("f for the key %s; a later Do for the same key returned %v (f invoked %d times)", mode, v, atomic.LoadInt32(&calls)))
	case <-time.After(15 * time.Millisecond):
	}
	if n := atomic.LoadInt32(&calls); n > 1 {
		viol("f-invoked-again-after-it-did-not-return", fmt.Sprintf("f for the key %s; f was then invoked %d times", mode, n))
	}
	if v := c.Get("key"); v != nil {
		viol("get-returned-value-f-never-produced", fmt.Sprintf("f for the key %s; Get returned %v", mode, v))
	}
	outMu.Lock()
	out.FaultRuns++
	outMu.Unlock()
}

func genSpec(rng *rand.Rand) spec {
	s := spec{Seed: rng.Int63()}
	s.G = []int{2, 3, 4, 8, 32}[rng.Intn(5)]
	s.K = 1 + rng.Intn(6)
	s.Ops = 1 + rng.Intn(6)
	s.KeyKind = rng.Intn(3)
	s.Rendez = rng.Intn(4) == 0
	s.Nested = rng.Intn(3) == 0
	s.SlowF = rng.Intn(3) == 0
	if rng.Intn(3) == 0 {
		s.NilKeys = rng.Intn(1 << s.K)
	}
	if s.Seed%4 == 1 {
		s.ErrKeys = int(uint64(s.Seed)>>3) & (1<<s.K - 1)
	}
	return s
}

func batch() {
	seed, _ := strconv.ParseInt(os.Args[2], 10, 64)
	count, _ := strconv.Atoi(os.Args[3])
	outPath := os.Args[4]
	rng := rand.New(rand.NewSource(seed))
	var out batchOut
	flushOut = func() {
		b, _ := json.Marshal(&out)
		os.WriteFile(outPath+".tmp", b, 0o666)
		os.Rename(outPath+".tmp", outPath)
	}
	for i := 0; i < count; i++ {
		sp := genSpec(rng)
		sb, _ := json.Marshal(&sp)
		os.WriteFile(outPath+".spec", sb, 0o666)
		oneRun(sp, &out)
		if i%100 == 37 {
			faultRun(sp.Seed, &out)
		}
	}
	outMu.Lock()
	flushOut()
	outMu.Unlock()
}

type ccase struct {
	Kind   string `json:"kind"`
	Build  string `json:"build"`
	Procs  int    `json:"gomaxprocs"`
	Seed   int64  `json:"batch_seed"`
	Spec   *spec  `json:"spec,omitempty"`
	Detail string `json:"detail"`
	Dump   string `json:"goroutine_dump,omitempty"`
}

func main() {
	if len(os.Args) > 1 && os.Args[1] == "batch" {
		batch()
		return
	}
	vlib.Main("C10", "exploration", 15*time.Minute, func(r *vlib.Run) {
		r.Rule("runs: 2-32 goroutines x 1-6 keys (string keys as in testscript's exec cache, pointer keys as in goproxytest's zip cache, ints) x 1-6 random Do/Get operations each, with fast / slow / nested f, in a third of the runs some keys' genuine result is nil (still computed once), in a quarter some keys' result is a value that implements error (a result like any other); a quarter of the runs are rendezvous runs in which f(key 0) does not finish until another goroutine's Get(key 0) has returned. Every Do/Get result is checked against the monitor. One run in 100 is followed by a fault run: f panics (recovered by its caller) or calls runtime.Goexit, after which no Do for that key may invoke f again or return a value. Each batch runs in a child, in a non-race build (runtime deadlock detector) and a race build (watchdog + dump + race detector), GOMAXPROCS in {1,2,16}. Distinct non-trivial = Do calls that arrived while f for their key was in progress (measured), plus completed rendezvous.")
		r.Assume("interleavings are sampled, not enumerated; the race detector sees only the executions that happened")
		base := vlib.Scratch()
		build := os.Getenv("VERIF_BUILD")
		bins := map[string]string{"race": os.Args[0], "norace": filepath.Join(build, "check-norace")}
		perBatch := r.Pick(1500, 25000)
		racePrefix := filepath.Join(base, "race")
		type job struct {
			build string
			procs int
			seed  int64
		}
		var jobs []job
		reps := r.Pick(2, 6)
		for rep := 0; rep < reps; rep++ {
			for _, b := range []string{"norace", "race"} {
				for _, p := range []int{1, 2, 16} {
					jobs = append(jobs, job{b, p, r.SubSeed(fmt.Sprintf("batch-%d-%d", rep, p)) % 1_000_000_007})
				}
			}
		}
		var mu sync.Mutex
		var tot batchOut
		seenKinds := map[string]int{}
		norace := map[string]time.Duration{}
		deadlocked := map[string]bool{}
		runJob := func(i int, jb job) {
			key := fmt.Sprintf("%d/%d", jb.seed, jb.procs)
			outPath := filepath.Join(base, fmt.Sprintf("out-%s-%d.json", jb.build, i))
			errPath := filepath.Join(base, fmt.Sprintf("err-%s-%d.txt", jb.build, i))
			env := []string{fmt.Sprintf("GOMAXPROCS=%d", jb.procs), vlib.RaceEnv(racePrefix), "GOTRACEBACK=all"}
			wd := r.PickDur(4*time.Minute, 25*time.Minute)
			if jb.build == "race" {
				mu.Lock()
				d, ok := norace[key]
				skip := deadlocked[key]
				mu.Unlock()
				if skip {
					r.Count("race_batches_skipped_after_deadlock_witness", 1)
					return
				}
				if ok {
					wd = 30*time.Second + 60*d
				}
			}
			t0 := time.Now()
			res := vlib.RunBatch(errPath, wd, env, bins[jb.build], "batch", fmt.Sprint(jb.seed), fmt.Sprint(perBatch), outPath)
			var bo batchOut
			if b, err := os.ReadFile(outPath); err == nil {
				json.Unmarshal(b, &bo)
			}
			if b, err := os.ReadFile(outPath + ".spec"); err == nil {
				json.Unmarshal(b, &bo.LastSpec)
			}
			mu.Lock()
			defer mu.Unlock()
			if jb.build == "norace" {
				norace[key] = time.Since(t0)
			}
			report := func(kind, detail string, sp *spec, dump string) {
				seenKinds[kind]++
				if seenKinds[kind] > 3 {
					return
				}
				if len(dump) > 20000 {
					dump = dump[:20000]
				}
				k := fmt.Sprintf("%s build=%s procs=%d batch=%d", kind, jb.build, jb.procs, jb.seed)
				if sp != nil {
					k += fmt.Sprintf(" spec=%d", sp.Seed%1000000)
				}
				r.Violation(k, kind+": "+detail, ccase{kind, jb.build, jb.procs, jb.seed, sp, detail, dump})
			}
			switch {
			case res.DeadlockByRuntime():
				deadlocked[key] = true
				what := "a Do or Get never returned"
				if bo.LastSpec.Rendez {
					what = "Get blocked on the computation in progress (rendezvous run: f waits for a concurrent Get to return), or a Do never returned"
				}
				report("deadlock", fmt.Sprintf("the Go runtime reports 'all goroutines are asleep - deadlock!': %s (spec %+v)", what, bo.LastSpec), &bo.LastSpec, res.Stderr)
			case res.TimedOut:
				deadlocked[key] = true
				parked, states := vlib.DumpAllParked(res.Stderr)
				if parked {
					report("deadlock", fmt.Sprintf("no progress within %v; every goroutine is parked (%v) (spec %+v)", wd, states, bo.LastSpec), &bo.LastSpec, res.Stderr)
				} else {
					r.Inconclusive(fmt.Sprintf("batch %s/%d timed out after %v with goroutines still runnable (%v)", jb.build, jb.procs, wd, states))
				}
			case res.ExitCode != 0:
				if strings.Contains(res.Stderr, "panic:") && strings.Contains(res.Stderr, "go-internal/par") {
					report("panic", "par.Cache panicked", &bo.LastSpec, res.Stderr)
				} else {
					r.Inconclusive(fmt.Sprintf("batch %s/%d exited with status %d: %s", jb.build, jb.procs, res.ExitCode, tailStr(res.Stderr, 400)))
				}
			}
			for _, v := range bo.Violations {
				v := v
				report(v.Kind, v.Detail+fmt.Sprintf(" (spec %+v)", v.Spec), &v.Spec, "")
			}
			tot.Runs += bo.Runs
			tot.DoCalls += bo.DoCalls
			tot.GetCalls += bo.GetCalls
			tot.GetNil += bo.GetNil
			tot.GetValue += bo.GetValue
			tot.Waited += bo.Waited
			tot.Rendezvous += bo.Rendezvous
			tot.FaultRuns += bo.FaultRuns
			r.Count("batches_"+jb.build, 1)
			if i == 0 {
				r.Sample(map[string]any{"kind": "batch", "build": jb.build, "gomaxprocs": jb.procs, "runs": bo.Runs, "last_spec": bo.LastSpec})
			}
		}
		for _, phase := range []string{"norace", "race"} {
			var sel []int
			for i, jb := range jobs {
				if jb.build == phase {
					sel = append(sel, i)
				}
			}
			vlib.Parallel(len(sel), 6, func(k int) { runJob(sel[k], jobs[sel[k]]) })
		}
		r.Eval(tot.DoCalls + tot.GetCalls)
		r.DistinctBulk(tot.Waited + tot.Rendezvous)
		r.Set("runs", tot.Runs)
		r.Set("do_calls", tot.DoCalls)
		r.Set("get_calls", tot.GetCalls)
		r.Set("get_returned_nil", tot.GetNil)
		r.Set("get_returned_value", tot.GetValue)
		r.Set("do_calls_that_found_f_in_progress", tot.Waited)
		r.Set("rendezvous_completed_get_returned_while_f_inside", tot.Rendezvous)
		r.Set("runs_in_which_f_panicked_or_called_goexit", tot.FaultRuns)
		r.ReportRaces(racePrefix)
		if tot.Rendezvous < 10 || tot.Waited < 50 {
			r.Inconclusive("too few rendezvous / waiting Do calls observed")
		}
	})
}

func tailStr(s string, n int) string {
	if len(s) > n {
		return s[len(s)-n:]
	}
	return s
}
