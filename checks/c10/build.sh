go build "${MODFLAG[@]}" -tags verif -o "$B/check-norace" ./checks/c10 || return 1
