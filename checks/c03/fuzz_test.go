package main

import (
	"testing"

	"verif/vlib"
)

// FuzzParse: the relations of C03 as a native fuzz target (extra input generator of the thorough tier).
func FuzzParse(f *testing.F) {
	for _, s := range []string{"", "-- a --\n", "x\n-- a --\r\nbody\n-- b --", "-- --", "-- x --\r", "--  --\n", "a\n-- b\n-- c --\n"} {
		f.Add([]byte(s))
	}
	f.Fuzz(func(t *testing.T, in []byte) {
		vlib.FuzzFail = func(msg string) { t.Fatalf("%s (input %q)", msg, in) }
		checkInput(in)
	})
}
