// C03: txtar.Parse is total and Format/Parse round-trips.
// Oracle: relations evaluated on every generated input (totality, re-parse
// fix-point, well-formed round trip, differential against
// golang.org/x/tools/txtar on CR-free input, CRLF≡LF marker recognition).
package main

import (
	"bytes"
	"encoding/hex"
	"fmt"
	"runtime"
	"sync"
	"sync/atomic"
	"time"

	"github.com/rogpeppe/go-internal/txtar"
	xt "golang.org/x/tools/txtar"

	"verif/gen/txtgen"
	"verif/vlib"
)

type tcase struct {
	Kind     string `json:"kind"`
	InputHex string `json:"input_hex"`
	Input    string `json:"input_quoted"`
	Detail   string `json:"detail,omitempty"`
}

var (
	run      *vlib.Run
	kindMu   sync.Mutex
	kindSeen = map[string]int{}
)

func report(kind string, in []byte, detail string) {
	if run == nil {
		if vlib.FuzzFail != nil {
			vlib.FuzzFail(kind + ": " + detail)
		}
		return
	}
	kindMu.Lock()
	kindSeen[kind]++
	n := kindSeen[kind]
	kindMu.Unlock()
	if n > 4 {
		run.Count("suppressed_duplicate_reports_"+kind, 1)
		return
	}
	run.Violation(fmt.Sprintf("%s input=%s", kind, vlib.Q(in)),
		fmt.Sprintf("%s on input %s: %s", kind, vlib.Q(in), detail),
		tcase{Kind: kind, InputHex: hex.EncodeToString(in), Input: vlib.Q(in), Detail: detail})
}

func eqArchive(a, b *xt.Archive) string {
	if !bytes.Equal(a.Comment, b.Comment) {
		return fmt.Sprintf("comment %s vs %s", vlib.Q(a.Comment), vlib.Q(b.Comment))
	}
	if len(a.Files) != len(b.Files) {
		return fmt.Sprintf("%d files vs %d files", len(a.Files), len(b.Files))
	}
	for i := range a.Files {
		if a.Files[i].Name != b.Files[i].Name {
			return fmt.Sprintf("file %d name %q vs %q", i, a.Files[i].Name, b.Files[i].Name)
		}
		if !bytes.Equal(a.Files[i].Data, b.Files[i].Data) {
			return fmt.Sprintf("file %d (%q) data %s vs %s", i, a.Files[i].Name, vlib.Q(a.Files[i].Data), vlib.Q(b.Files[i].Data))
		}
	}
	return ""
}

// parse calls the real Parse on a private copy of in that has spare capacity filled with
// guard bytes: Parse must read its argument only - neither the bytes of the slice nor the
// memory behind its end (which belongs to the caller) may change.
func parse(in []byte) (a *xt.Archive, ok bool) {
	const guard = 8
	buf := make([]byte, len(in)+guard)
	copy(buf, in)
	for i := len(in); i < len(buf); i++ {
		buf[i] = 0xA5
	}
	arg := buf[:len(in)] // cap(arg) = len(in)+guard
	pv, st := vlib.Try(func() { a = txtar.Parse(arg) })
	if !bytes.Equal(buf[:len(in)], in) {
		report("parse-modifies-its-input", in, fmt.Sprintf("after Parse the argument holds %s", vlib.Q(buf[:len(in)])))
	}
	for i := len(in); i < len(buf); i++ {
		if buf[i] != 0xA5 {
			report("parse-writes-behind-its-input", in, fmt.Sprintf("Parse was given a slice of length %d with spare capacity; afterwards byte %d behind its end is %#x (was the guard value 0xa5): it wrote into memory that belongs to the caller", len(in), i-len(in), buf[i]))
			break
		}
	}
	if pv != nil {
		report("parse-panic", in, fmt.Sprintf("panic: %v at %s", pv, vlib.RepoFrame(st)))
		return nil, false
	}
	if a == nil {
		report("parse-nil", in, "Parse returned nil")
		return nil, false
	}
	return a, true
}

// toCRLF rewrites the LF terminator of every line that begins with "-- " into CRLF.
func toCRLF(in []byte) ([]byte, int) {
	var out []byte
	n := 0
	for len(in) > 0 {
		i := bytes.IndexByte(in, '\n')
		var line []byte
		term := false
		if i < 0 {
			line, in = in, nil
		} else {
			line, in = in[:i], in[i+1:]
			term = true
		}
		out = append(out, line...)
		if term {
			if bytes.HasPrefix(line, []byte("-- ")) {
				out = append(out, '\r')
				n++
			}
			out = append(out, '\n')
		}
	}
	return out, n
}

// fromCRLF undoes toCRLF on a chunk returned by Parse.
func fromCRLF(in []byte) []byte {
	var out []byte
	for len(in) > 0 {
		i := bytes.IndexByte(in, '\n')
		var line []byte
		term := false
		if i < 0 {
			line, in = in, nil
		} else {
			line, in = in[:i], in[i+1:]
			term = true
		}
		if term && bytes.HasPrefix(line, []byte("-- ")) && bytes.HasSuffix(line, []byte("\r")) {
			line = line[:len(line)-1]
		}
		out = append(out, line...)
		if term {
			out = append(out, '\n')
		}
	}
	return out
}

var diagFinalNL int64

// checkInput evaluates all input relations on one byte string.
func checkInput(in []byte) {
	run.Eval(1)
	a, ok := parse(in)
	if !ok {
		return
	}
	// re-parse fix-point
	var f []byte
	if pv, st := vlib.Try(func() { f = txtar.Format(a) }); pv != nil {
		report("format-panic", in, fmt.Sprintf("panic: %v at %s", pv, vlib.RepoFrame(st)))
		return
	}
	a2, ok := parse(f)
	if !ok {
		return
	}
	if d := eqArchive(a, a2); d != "" {
		report("reparse-not-stable", in, "Parse(Format(Parse(x))) != Parse(x): "+d)
	}
	hasCR := bytes.IndexByte(in, '\r') >= 0
	if !hasCR {
		ref := xt.Parse(in)
		if d := eqArchive(ref, a); d != "" {
			report("differs-from-x-tools", in, "x/tools txtar.Parse (first) vs this Parse (second): "+d)
		}
		// CRLF ≡ LF
		cr, n := toCRLF(in)
		if n > 0 {
			b, ok := parse(cr)
			if ok {
				bb := &xt.Archive{Comment: fromCRLF(b.Comment)}
				for _, f := range b.Files {
					bb.Files = append(bb.Files, xt.File{Name: f.Name, Data: fromCRLF(f.Data)})
				}
				if d := eqArchive(a, bb); d != "" {
					report("crlf-marker-differs", in, fmt.Sprintf("LF input (first) vs the same input with CRLF after '-- ' lines %s (second): %s", vlib.Q(cr), d))
				}
				run.Count("crlf_pairs", 1)
			}
		}
	}
	// diagnostic only: "a missing final newline is considered present"
	if len(in) > 0 && in[len(in)-1] != '\n' {
		if b, ok := parse(append(append([]byte{}, in...), '\n')); ok && eqArchive(a, b) != "" {
			atomic.AddInt64(&diagFinalNL, 1)
		}
	}
}

func nontrivial(in []byte) bool {
	return bytes.HasPrefix(in, []byte("-- ")) || bytes.Contains(in, []byte("\n-- "))
}

func main() {
	vlib.Main("C03", "exploration", 10*time.Minute, func(r *vlib.Run) {
		run = r
		if p := vlib.ReplayPath(); p != "" {
			var c tcase
			if err := vlib.LoadReplayCase(p, &c); err != nil {
				r.Inconclusive("cannot load replay: " + err.Error())
				return
			}
			in, _ := hex.DecodeString(c.InputHex)
			checkInput(in)
			r.Eval(1)
			r.DistinctBulk(2)
			return
		}
		r.Rule("Every Parse call gets its input as a slice with spare capacity filled with guard bytes, which must be intact afterwards (Parse only reads its argument). inputs: (1) every string over {'-',' ',LF,CR,'a','>'} up to the length bound, bare and prefixed with \"x\\n\"; (2) random texts of marker look-alike lines (LF/CRLF/no final NL, arbitrary bytes); (3) random well-formed archives. Non-trivial = contains at least one line starting with \"-- \" (exhaustive part counted by construction, random part by content hash).")
		r.Assume("golang.org/x/tools/txtar v0.26.0 is the reference definition for CR-free input")
		W := runtime.NumCPU()
		maxLen := r.Pick(8, 10)
		total := txtgen.Count(maxLen)
		r.Set("exhaustive_max_len", maxLen)
		r.Set("exhaustive_strings", total*2)
		const chunk = 1 << 14
		nchunks := int((total + chunk - 1) / chunk)
		var nt int64
		vlib.Parallel(nchunks, W, func(ci int) {
			buf := make([]byte, 0, 16)
			pre := make([]byte, 0, 18)
			var lnt int64
			for idx := int64(ci) * chunk; idx < int64(ci+1)*chunk && idx < total; idx++ {
				buf = txtgen.Nth(idx, buf)
				checkInput(buf)
				if nontrivial(buf) {
					lnt++
				}
				pre = append(pre[:0], 'x', '\n')
				pre = append(pre, buf...)
				checkInput(pre)
				if nontrivial(pre) {
					lnt++
				}
			}
			atomic.AddInt64(&nt, lnt)
		})
		r.DistinctBulk(nt)
		r.Exhaustive(false)
		r.Sample(map[string]any{"kind": "exhaustive", "example": "-- a --\r\n", "count": total * 2})

		// random long inputs
		nrand := r.Pick(100000, 3000000)
		vlib.Parallel(W, W, func(w int) {
			rng := r.Rand(fmt.Sprintf("rand-%d", w))
			for i := w; i < nrand; i += W {
				n := 1 + rng.Intn(12)
				if rng.Intn(50) == 0 {
					n = 200 + rng.Intn(2000)
				}
				in := txtgen.RandomText(rng, n, rng.Intn(3) != 0)
				checkInput(in)
				if nontrivial(in) {
					r.DistinctBytes(in)
				}
				if i < 3 {
					r.Sample(map[string]any{"kind": "random-text", "input": vlib.Q(in)})
				}
			}
		})

		// well-formed archives: Parse(Format(a)) == a
		nwf := r.Pick(50000, 1500000)
		vlib.Parallel(W, W, func(w int) {
			rng := r.Rand(fmt.Sprintf("wf-%d", w))
			for i := w; i < nwf; i += W {
				a := txtgen.WellFormed(rng)
				r.Eval(1)
				f := txtar.Format(a)
				b, ok := parse(f)
				if !ok {
					continue
				}
				if d := eqArchive(a, b); d != "" {
					report("wellformed-roundtrip", f, "Parse(Format(a)) != a for well-formed a: "+d)
				}
				if len(a.Files) > 0 {
					r.DistinctBytes(f)
				}
				if i < 2 {
					r.Sample(map[string]any{"kind": "well-formed", "formatted": vlib.Q(f)})
				}
				r.Count("wellformed_archives", 1)
			}
		})
		// native fuzzing as an additional input generator (thorough tier): failing inputs are re-run through
		// the deterministic oracle above, which is what reports them
		if !r.Quick() {
			inputs, execs, ok := vlib.GoFuzz("checks/c03", "FuzzParse", 60*time.Second)
			r.Set("native_fuzzing", map[string]any{"target": "FuzzParse", "ran": ok, "last_progress_line": execs, "failing_inputs": len(inputs)})
			for _, args := range inputs {
				if len(args) == 1 {
					checkInput(args[0])
				}
			}
		}
		r.Set("diag_final_newline_rule_differs", atomic.LoadInt64(&diagFinalNL))
	})
}
