// C20: goproxytest serves exactly the modules stored in its directory.
// Oracle: expectations computed by the harness from the directory it
// generated; zip responses re-read with archive/zip and compared as maps;
// concurrent first requests must all be byte-identical to the sequential
// expectation; race detector on the in-process server.
package main

import (
	"archive/zip"
	"bytes"
	"encoding/json"
	"fmt"
	"io"
	"math/rand"
	"net/http"
	"os"
	"path/filepath"
	"runtime"
	"sort"
	"strings"
	"sync"
	"sync/atomic"
	"time"

	"github.com/rogpeppe/go-internal/goproxytest"
	"golang.org/x/mod/module"
	"golang.org/x/mod/semver"
	xt "golang.org/x/tools/txtar"

	"verif/vlib"
)

type modVersion struct {
	Path    string            `json:"path"`
	Version string            `json:"version"`
	Layout  string            `json:"layout"` // txt, txtar, dir
	Files   map[string]string `json:"files"`  // as stored (after txtar normalisation for archive layouts)
	Short   string            `json:"short,omitempty"`
	Pseudo  bool              `json:"pseudo"`
	Listed  bool              `json:"listed"`
}

type ccase struct {
	Kind    string       `json:"kind"`
	URL     string       `json:"url_path"`
	Detail  string       `json:"detail"`
	Modules []modVersion `json:"served_directory"`
}

var (
	run      *vlib.Run
	kindMu   sync.Mutex
	kindSeen = map[string]int{}
)

func limited(kind string) bool {
	kindMu.Lock()
	defer kindMu.Unlock()
	kindSeen[kind]++
	return kindSeen[kind] > 4
}

var modPaths = []string{"a.com/m", "example.com/Foo/Bar", "github.com/x/y", "a.com/m/v2", "b.org/UPPER", "c.io/x-y.z", "golang.org/x/demo", "a.com/m/sub", "a.com/mm", "d.dev/A/b/C/v3"}

var plainVersions = []string{"v1.0.0", "v1.2.3", "v0.1.0", "v1.0.1-pre", "v1.0.0-RC1", "v2.0.0+incompatible", "v1.10.0", "v1.9.0", "v0.0.1", "v3.1.4"}
var pseudoVersions = []string{"v0.0.0-20200101000000-abcdef123456", "v1.2.4-0.20210203040506-0123456789ab", "v1.0.1-pre.0.20191231235959-fedcba987654", "v2.0.1-0.20220101000000-aaaabbbbcccc+incompatible"}
var badVersions = []string{"v1.0", "v1", "v1.0.0.0"}

func majorOK(path, vers string) bool { return module.Check(path, vers) == nil }

var fileNames = []string{"go.mod", "x.go", "sub/y.go", "sub/deep/z.txt", "README", ".hidden", "sub/.nested", ".dir/inner", "a b.txt", "UPPER.go", "sub/go.mod", "empty",
	// below a dot-prefixed directory that is not at the top: the name does not start with a dot, so the file belongs in the zip
	"internal/gen/.golden/out.txt", "testdata/.cache/v1/index.json", "sub/.d/deep/file", ".top/.below/x"}

func genDir(r *rand.Rand, dir string) []modVersion {
	var out []modVersion
	nm := 1 + r.Intn(5)
	perm := r.Perm(len(modPaths))
	used := map[string]bool{}
	for mi := 0; mi < nm; mi++ {
		path := modPaths[perm[mi]]
		nv := 1 + r.Intn(5)
		for vi := 0; vi < nv; vi++ {
			var vers string
			pseudo := false
			switch r.Intn(8) {
			case 0, 1:
				vers = pseudoVersions[r.Intn(len(pseudoVersions))]
				pseudo = true
			case 2:
				vers = badVersions[r.Intn(len(badVersions))]
			default:
				vers = plainVersions[r.Intn(len(plainVersions))]
			}
			if used[path+"@"+vers] {
				continue
			}
			used[path+"@"+vers] = true
			mv := modVersion{Path: path, Version: vers, Pseudo: pseudo, Files: map[string]string{}}
			mv.Layout = []string{"txt", "txtar", "dir"}[r.Intn(3)]
			info := map[string]any{"Version": vers, "Time": "2020-01-02T03:04:05Z"}
			if r.Intn(2) == 0 {
				mv.Short = fmt.Sprintf("%012x", r.Int63())[:12]
				info["Short"] = mv.Short
			}
			if r.Intn(4) == 0 {
				// what an origin record looks like: percent-encoded URL, a reference with odd bytes
				info["Origin"] = map[string]string{"VCS": "git", "URL": "https://example.com/my%20repo/a%2Fb%", "Ref": "refs/tags/" + vers + " {{.}} $HOME"}
			}
			ib, _ := json.Marshal(info)
			mv.Files[".info"] = string(ib) + "\n"
			mv.Files[".mod"] = "module " + path + "\n"
			switch r.Intn(4) {
			case 0:
				mv.Files[".mod"] = "module " + path + "\n\ngo 1.20\n"
			case 1:
				// bytes that mean something to a formatter or a template, in comments
				mv.Files[".mod"] = "module " + path + "\n\n// 100% compatible with v0; see docs/a%b.md, %s %d %v %%\n// {{.Version}} $GOPATH \\n\ngo 1.20\n"
			}
			nf := r.Intn(6)
			for i := 0; i < nf; i++ {
				fn := fileNames[r.Intn(len(fileNames))]
				body := fmt.Sprintf("// %s %s %s #%d\n", path, vers, fn, r.Intn(1000))
				switch r.Intn(6) {
				case 0:
					body = ""
				case 1:
					body += strings.Repeat("line\n", r.Intn(200))
				}
				if fn == "go.mod" {
					body = mv.Files[".mod"]
				}
				mv.Files[fn] = body
			}
			if mv.Layout == "dir" && r.Intn(3) == 0 {
				mv.Files["raw.bin"] = "no final newline \x00\xff bytes"
			}
			mv.Listed = !pseudo && majorOK(path, vers)
			if err := store(dir, &mv, r); err != nil {
				panic(err)
			}
			out = append(out, mv)
		}
	}
	return out
}

func encName(path, vers string) string {
	ep, err := module.EscapePath(path)
	if err != nil {
		panic(err)
	}
	ev, err := module.EscapeVersion(vers)
	if err != nil {
		panic(err)
	}
	return strings.ReplaceAll(ep, "/", "_") + "_" + ev
}

func store(dir string, mv *modVersion, r *rand.Rand) error {
	name := filepath.Join(dir, encName(mv.Path, mv.Version))
	var keys []string
	for k := range mv.Files {
		keys = append(keys, k)
	}
	sort.Strings(keys)
	r.Shuffle(len(keys), func(i, j int) { keys[i], keys[j] = keys[j], keys[i] })
	switch mv.Layout {
	case "dir":
		for _, k := range keys {
			fp := filepath.Join(name, filepath.FromSlash(k))
			if err := os.MkdirAll(filepath.Dir(fp), 0o777); err != nil {
				return err
			}
			if err := os.WriteFile(fp, []byte(mv.Files[k]), 0o666); err != nil {
				return err
			}
		}
		return os.MkdirAll(name, 0o777)
	default:
		a := &xt.Archive{Comment: []byte("module " + mv.Path + "@" + mv.Version + "\n\n")}
		for _, k := range keys {
			a.Files = append(a.Files, xt.File{Name: k, Data: []byte(mv.Files[k])})
		}
		b := xt.Format(a)
		// what is stored is what the reference parser reads back
		back := xt.Parse(b)
		for _, f := range back.Files {
			mv.Files[f.Name] = string(f.Data)
		}
		return os.WriteFile(name+"."+mv.Layout, b, 0o666)
	}
}

type expect struct {
	url    string // path after srv.URL
	status int
	body   []byte            // exact body (info, mod, list as set)
	zip    map[string]string // for .zip
	list   []string          // for list (as a set)
	kind   string
}

// uniqueHash returns the commit hash of m if m is the only stored version of
// its module that has a hash at all (so resolution cannot be ambiguous).
func uniqueHash(m modVersion, mods []modVersion) string {
	hashOf := func(x modVersion) string {
		if x.Pseudo {
			return strings.TrimSuffix(x.Version[strings.LastIndex(x.Version, "-")+1:], "+incompatible")
		}
		return x.Short
	}
	h := hashOf(m)
	if h == "" || !semver.IsValid(m.Version) || strings.Contains(m.Version, "+incompatible") && m.Pseudo {
		return ""
	}
	for _, o := range mods {
		if o.Path == m.Path && o.Version != m.Version && hashOf(o) != "" {
			return ""
		}
	}
	return h
}

func urlFor(path, file string) string {
	ep, _ := module.EscapePath(path)
	return "/" + ep + "/@v/" + file
}

func escV(v string) string { e, _ := module.EscapeVersion(v); return e }

func buildExpectations(r *rand.Rand, mods []modVersion) []expect {
	var ex []expect
	byPath := map[string][]modVersion{}
	for _, m := range mods {
		byPath[m.Path] = append(byPath[m.Path], m)
	}
	hashes := []string{}
	for _, m := range mods {
		if m.Short != "" {
			hashes = append(hashes, m.Short)
		}
		if m.Pseudo {
			h := m.Version[strings.LastIndex(m.Version, "-")+1:]
			h = strings.TrimSuffix(h, "+incompatible")
			hashes = append(hashes, h)
		}
	}
	for _, m := range mods {
		ex = append(ex, expect{url: urlFor(m.Path, escV(m.Version)+".info"), status: 200, body: []byte(m.Files[".info"]), kind: "info"})
		ex = append(ex, expect{url: urlFor(m.Path, escV(m.Version)+".mod"), status: 200, body: []byte(m.Files[".mod"]), kind: "mod"})
		z := map[string]string{}
		for k, v := range m.Files {
			if !strings.HasPrefix(k, ".") {
				z[m.Path+"@"+m.Version+"/"+k] = v
			}
		}
		ex = append(ex, expect{url: urlFor(m.Path, escV(m.Version)+".zip"), status: 200, zip: z, kind: "zip"})
		ex = append(ex, expect{url: urlFor(m.Path, escV(m.Version)+"."+[]string{"foo", "txt", "zi", "infoo", "MOD", "json", "ziphash", "info.bak"}[r.Intn(8)]), status: 404, kind: "unknown-extension"})
		// a commit hash that identifies exactly this stored version must be answered with this version's data
		if h := uniqueHash(m, mods); h != "" {
			switch {
			case r.Intn(3) == 0 && len(h) > 7:
				h = h[:7]
			case r.Intn(2) == 0:
				// the full commit hash, of which the proxy knows the first twelve digits
				h = (h + "0123456789abcdef0123456789abcdef01234567")[:40]
			}
			switch r.Intn(3) {
			case 0:
				ex = append(ex, expect{url: urlFor(m.Path, h+".info"), status: 200, body: []byte(m.Files[".info"]), kind: "hash-resolves-info"})
			case 1:
				ex = append(ex, expect{url: urlFor(m.Path, h+".mod"), status: 200, body: []byte(m.Files[".mod"]), kind: "hash-resolves-mod"})
			default:
				ex = append(ex, expect{url: urlFor(m.Path, h+".zip"), status: 200, zip: z, kind: "hash-resolves-zip"})
			}
		}
	}
	for p, ms := range byPath {
		var l []string
		for _, m := range ms {
			if m.Listed {
				l = append(l, m.Version)
			}
		}
		if len(l) == 0 {
			ex = append(ex, expect{url: urlFor(p, "list"), status: 404, kind: "list-nothing-listable"})
		} else {
			ex = append(ex, expect{url: urlFor(p, "list"), status: 200, list: l, kind: "list"})
		}
	}
	// not stored
	stored := map[string]bool{}
	for _, m := range mods {
		stored[m.Path+"@"+m.Version] = true
	}
	for _, p := range modPaths {
		if len(byPath[p]) == 0 {
			for _, f := range []string{"list", "v1.0.0.info", "v1.0.0.mod", "v1.0.0.zip"} {
				ex = append(ex, expect{url: urlFor(p, f), status: 404, kind: "unknown-module"})
			}
		}
	}
	for p := range byPath {
		for _, v := range append(append([]string{}, plainVersions...), pseudoVersions...) {
			if !stored[p+"@"+v] && r.Intn(3) == 0 {
				ext := []string{"info", "mod", "zip"}[r.Intn(3)]
				ex = append(ex, expect{url: urlFor(p, escV(v)+"."+ext), status: 404, kind: "version-not-stored-for-this-module"})
			}
		}
		// hex strings that are neither a prefix of nor prefixed by any stored hash
		for k := 0; k < 3; k++ {
			h := fmt.Sprintf("%x", r.Int63())
			h = h[:4+r.Intn(len(h)-4)]
			ok := true
			for _, s := range hashes {
				if strings.HasPrefix(s, h) || strings.HasPrefix(h, s) {
					ok = false
				}
			}
			if ok {
				ext := []string{"info", "mod", "zip"}[r.Intn(3)]
				ex = append(ex, expect{url: urlFor(p, h+"."+ext), status: 404, kind: "hex-version-not-stored"})
			}
		}
		ex = append(ex, expect{url: urlFor(p, "nosuchfile"), status: 404, kind: "no-extension"})
		ex = append(ex, expect{url: urlFor(p, "."+[]string{"info", "mod", "zip"}[r.Intn(3)]), status: 404, kind: "empty-version"})
	}
	ex = append(ex, expect{url: "/nomod", status: 404, kind: "no-@v"})
	return ex
}

func fetch(c *http.Client, base, u string) (int, []byte, error) {
	resp, err := c.Get(base + u)
	if err != nil {
		return 0, nil, err
	}
	defer resp.Body.Close()
	b, err := io.ReadAll(resp.Body)
	return resp.StatusCode, b, err
}

func readZip(b []byte) (map[string]string, error) {
	zr, err := zip.NewReader(bytes.NewReader(b), int64(len(b)))
	if err != nil {
		return nil, err
	}
	m := map[string]string{}
	for _, f := range zr.File {
		if _, dup := m[f.Name]; dup {
			return nil, fmt.Errorf("duplicate zip entry %q", f.Name)
		}
		rc, err := f.Open()
		if err != nil {
			return nil, err
		}
		d, err := io.ReadAll(rc)
		rc.Close()
		if err != nil {
			return nil, err
		}
		m[f.Name] = string(d)
	}
	return m, nil
}

// judge compares one response with its expectation; returns "" if fine.
func judge(e expect, status int, body []byte) string {
	if status != e.status {
		return fmt.Sprintf("status %d, want %d (body %s)", status, e.status, vlib.Q(body))
	}
	if e.status != 200 {
		return ""
	}
	switch {
	case e.zip != nil:
		got, err := readZip(body)
		if err != nil {
			return "response is not a valid zip: " + err.Error()
		}
		for k, v := range e.zip {
			g, ok := got[k]
			if !ok {
				return fmt.Sprintf("zip lacks %q (has %v)", k, keysOf(got))
			}
			if g != v {
				return fmt.Sprintf("zip entry %q holds %s, stored %s", k, vlib.Q([]byte(g)), vlib.Q([]byte(v)))
			}
		}
		for k := range got {
			if _, ok := e.zip[k]; !ok {
				return fmt.Sprintf("zip has extra entry %q", k)
			}
		}
	case e.list != nil:
		if len(body) > 0 && body[len(body)-1] != '\n' {
			return fmt.Sprintf("list response not newline-terminated: %s", vlib.Q(body))
		}
		got := strings.Fields(string(body))
		sort.Strings(got)
		want := append([]string{}, e.list...)
		sort.Strings(want)
		if strings.Join(got, " ") != strings.Join(want, " ") {
			return fmt.Sprintf("list %v, want %v", got, want)
		}
	default:
		if !bytes.Equal(body, e.body) {
			return fmt.Sprintf("body %s, stored %s", vlib.Q(body), vlib.Q(e.body))
		}
	}
	return ""
}

func keysOf(m map[string]string) []string {
	var k []string
	for x := range m {
		k = append(k, x)
	}
	sort.Strings(k)
	return k
}

var nReq, nConcGroups, n404, n200 int64

func serverCase(rng *rand.Rand, base string, idx int) {
	dir := filepath.Join(base, fmt.Sprintf("s%d", idx))
	os.MkdirAll(dir, 0o777)
	defer os.RemoveAll(dir)
	mods := genDir(rng, dir)
	// clutter that must be ignored
	os.WriteFile(filepath.Join(dir, "README"), []byte("not a module\n"), 0o666)
	os.WriteFile(filepath.Join(dir, "notes.md"), []byte("x"), 0o666)
	srv, err := goproxytest.NewServer(dir, "")
	if err != nil {
		run.Violation(fmt.Sprintf("server-start-failed %v", err), fmt.Sprintf("NewServer failed on a generated directory: %v", err), ccase{"server-start-failed", "", err.Error(), mods})
		return
	}
	defer srv.Close()
	ex := buildExpectations(rng, mods)
	rng.Shuffle(len(ex), func(i, j int) { ex[i], ex[j] = ex[j], ex[i] })
	client := &http.Client{Transport: &http.Transport{MaxIdleConnsPerHost: 64}, Timeout: 60 * time.Second}
	defer client.CloseIdleConnections()
	fail := func(kind string, e expect, detail string) {
		if limited(kind + "/" + e.kind) {
			run.Count("suppressed_duplicate_reports", 1)
			return
		}
		run.Violation(fmt.Sprintf("%s/%s url=%s dir=%s", kind, e.kind, e.url, dirSig(mods)), fmt.Sprintf("%s (%s) GET %s: %s", kind, e.kind, e.url, detail), ccase{kind + "/" + e.kind, e.url, detail, mods})
	}
	// Phase 1: concurrent FIRST requests: groups of URLs are requested by many goroutines at once.
	conc := 16 + rng.Intn(49)
	type res struct {
		status int
		body   []byte
		err    error
	}
	// take a subset of expectations to hammer concurrently (all of them when few)
	hammer := ex
	if len(hammer) > 24 {
		hammer = hammer[:24]
	}
	results := make([][]res, len(hammer))
	var wg sync.WaitGroup
	start := make(chan struct{})
	for i := range hammer {
		results[i] = make([]res, conc/len(hammer)+2)
		for g := range results[i] {
			wg.Add(1)
			go func(i, g int) {
				defer wg.Done()
				<-start
				s, b, err := fetch(client, srv.URL, hammer[i].url)
				results[i][g] = res{s, b, err}
			}(i, g)
		}
	}
	close(start)
	wg.Wait()
	atomic.AddInt64(&nConcGroups, int64(len(hammer)))
	for i, e := range hammer {
		for g, rs := range results[i] {
			run.Eval(1)
			atomic.AddInt64(&nReq, 1)
			if rs.err != nil {
				run.Inconclusive(fmt.Sprintf("HTTP client error on %s: %v", e.url, rs.err))
				continue
			}
			if d := judge(e, rs.status, rs.body); d != "" {
				fail("wrong-response-under-concurrency", e, d)
				break
			}
			if g > 0 && e.zip == nil && !bytes.Equal(rs.body, results[i][0].body) {
				fail("responses-differ-under-concurrency", e, fmt.Sprintf("%s vs %s", vlib.Q(rs.body), vlib.Q(results[i][0].body)))
			}
			if g > 0 && e.zip != nil && !bytes.Equal(rs.body, results[i][0].body) {
				fail("zip-responses-differ-under-concurrency", e, "two concurrent requests received different zip bytes")
			}
		}
	}
	// Phase 2: every expectation sequentially (also re-checks the cached ones)
	for _, e := range ex {
		run.Eval(1)
		atomic.AddInt64(&nReq, 1)
		s, b, err := fetch(client, srv.URL, e.url)
		if err != nil {
			run.Inconclusive(fmt.Sprintf("HTTP client error on %s: %v", e.url, err))
			continue
		}
		if s == 404 {
			atomic.AddInt64(&n404, 1)
		} else if s == 200 {
			atomic.AddInt64(&n200, 1)
		}
		if d := judge(e, s, b); d != "" {
			fail("wrong-response", e, d)
		}
		run.Distinct(e.kind + "|" + e.url + "|" + dirSig(mods))
	}
	if idx < 2 {
		run.Sample(map[string]any{"kind": "served-directory", "modules": summarize(mods), "requests": len(ex), "concurrency": conc})
	}
}

func summarize(mods []modVersion) []string {
	var s []string
	for _, m := range mods {
		var fs []string
		for k := range m.Files {
			fs = append(fs, k)
		}
		sort.Strings(fs)
		s = append(s, fmt.Sprintf("%s@%s [%s] short=%q files=%v", m.Path, m.Version, m.Layout, m.Short, fs))
	}
	return s
}

func dirSig(mods []modVersion) string {
	var s []string
	for _, m := range mods {
		s = append(s, m.Path+"@"+m.Version+":"+m.Layout+":"+m.Short)
	}
	return strings.Join(s, ",")
}

func main() {
	vlib.Main("C20", "exploration", 10*time.Minute, func(r *vlib.Run) {
		run = r
		r.Rule("generated module directories: 1-5 modules x 1-5 versions (plain semver, pre-release with upper case, +incompatible, pseudo-versions, non-canonical versions), case-escaped paths, /vN suffixes, layouts .txt/.txtar/directory, nested files, dot files at top level and nested, .info with and without Short / Origin (percent-encoded URL), .mod with comments full of formatter and template syntax. Per server: .info/.mod/.zip/list for everything stored, and not-stored probes (unknown module, unknown version, unknown extension, version of another module, non-matching hex versions); the first requests are issued by 16-64 goroutines at once, then every URL again sequentially. Non-trivial = distinct (request kind, URL, directory).")
		r.Assume("module paths containing '_' are not generated (the file-name encoding is ambiguous there); hex versions that are a prefix of / prefixed by a stored short hash or pseudo-version hash are not probed (commit-hash resolution is outside the statement)")
		base := vlib.Scratch()
		ns := r.Pick(150, 5000)
		W := runtime.NumCPU() / 2
		if W < 2 {
			W = 2
		}
		vlib.Parallel(W, W, func(w int) {
			rng := r.Rand(fmt.Sprintf("srv-%d", w))
			for i := w; i < ns; i += W {
				serverCase(rng, base, i)
			}
		})
		r.Set("servers", ns)
		r.Set("requests", atomic.LoadInt64(&nReq))
		r.Set("urls_hammered_concurrently_first", atomic.LoadInt64(&nConcGroups))
		r.Set("responses_200", atomic.LoadInt64(&n200))
		r.Set("responses_404", atomic.LoadInt64(&n404))
		r.ReportRaces(filepath.Join(base, "race"))
	})
}
