// C06: a lockedfile write lock excludes every other holder, across processes.
// Oracle (online, exact): per lock path one 64-bit occupancy word in a file
// mapped MAP_SHARED by every participant. Right after an acquiring call
// returns the holder atomically adds (reader +1, writer +2^32) and inspects
// the result; right before releasing it subtracts. Any overlap of a writer
// with anyone is therefore seen deterministically, in any process.
package main

import (
	"encoding/json"
	"errors"
	"fmt"
	"io"
	"io/fs"
	"math/rand"
	"os"
	"os/exec"
	"path/filepath"
	"runtime"
	"strconv"
	"strings"
	"sync"
	"sync/atomic"
	"syscall"
	"time"

	"github.com/rogpeppe/go-internal/lockedfile"

	"verif/vlib"
)

const wr = uint64(1) << 32

var apis = []string{"OpenFile(O_RDONLY)", "Open", "OpenFile(O_WRONLY)", "OpenFile(O_RDWR)", "Create", "Edit", "Mutex.Lock", "Transform", "Write"}

type result struct {
	Acq        map[string]int64    `json:"acquisitions"`
	Contended  int64               `json:"contended"`
	MaxReaders int64               `json:"max_readers"`
	Hook       map[string]int64    `json:"hook"`
	Violations []map[string]string `json:"violations"`
	Errors     []string            `json:"errors"`
}

type contentReader struct {
	enter func()
	leave func()
	data  []byte
	pos   int
	in    bool
}

func (c *contentReader) Read(p []byte) (int, error) {
	if !c.in {
		c.in = true
		c.enter()
	}
	if c.pos >= len(c.data) {
		c.leave()
		return 0, io.EOF
	}
	n := copy(p, c.data[c.pos:min(len(c.data), c.pos+7)])
	c.pos += n
	return n, nil
}

var errProbe = errors.New("injected failure of a release probe")

type failingReader struct{}

func (failingReader) Read([]byte) (int, error) { return 0, errProbe }

func worker() {
	probes := os.Getenv("C06_PROBE") == "1"
	dir := os.Getenv("C06_DIR")
	seed, _ := strconv.ParseInt(os.Getenv("C06_SEED"), 10, 64)
	G, _ := strconv.Atoi(os.Getenv("C06_G"))
	N, _ := strconv.Atoi(os.Getenv("C06_N"))
	NP, _ := strconv.Atoi(os.Getenv("C06_PATHS"))
	// index of a lock path that is not a regular file (-1: none); "chardev" or "fifo"
	unpriv := os.Getenv("C06_UNPRIV") == "1"
	nosys := os.Getenv("C06_NOSYS") == "1"
	nonreg, nonregKind := -1, os.Getenv("C06_NONREG_KIND")
	if v := os.Getenv("C06_NONREG"); v != "" {
		nonreg, _ = strconv.Atoi(v)
	}
	words, err := vlib.OpenSharedWords(filepath.Join(dir, "words"), 16)
	if err != nil {
		fmt.Fprintln(os.Stderr, err)
		os.Exit(2)
	}
	res := result{Acq: map[string]int64{}, Hook: map[string]int64{}}
	var mu sync.Mutex
	viol := func(kind, detail string) {
		mu.Lock()
		if len(res.Violations) < 20 {
			res.Violations = append(res.Violations, map[string]string{"kind": kind, "detail": detail})
		}
		if kind == "lock-not-released" {
			// report at once: the leaked File's finalizer panics as soon as the collector finds it
			b, _ := json.Marshal(&res)
			os.WriteFile(os.Getenv("C06_OUT"), b, 0o666)
			os.Exit(0)
		}
		mu.Unlock()
	}
	var hookCtr uint64
	lockedfile.VerifSetHook(func(point string) {
		n := atomic.AddUint64(&hookCtr, 1)
		mu.Lock()
		res.Hook[point]++
		mu.Unlock()
		x := (n*0x9e3779b97f4a7c15 + uint64(seed)) >> 33
		switch x % 8 {
		case 0:
			time.Sleep(time.Duration(x%400) * time.Microsecond)
		case 1:
			runtime.Gosched()
		}
	})
	mutexes := make([]*lockedfile.Mutex, NP)
	for i := range mutexes {
		mutexes[i] = lockedfile.MutexAt(filepath.Join(dir, fmt.Sprintf("lock%d", i)))
	}
	if os.Getenv("C06_CLOSE_STDIN") == "1" {
		// a daemon-style process: standard input closed, so that files it opens next (the lock
		// files among them) land on descriptor 0
		os.Stdin.Close()
		res.Acq["(worker process with descriptor 0 free)"]++
	}
	for words.Load(15) == 0 {
		time.Sleep(200 * time.Microsecond)
	}
	var wg sync.WaitGroup
	var maxReaders, contended int64
	for g := 0; g < G; g++ {
		wg.Add(1)
		go func(g int) {
			defer wg.Done()
			rng := rand.New(rand.NewSource(seed*977 + int64(g)))
			dwell := func() {
				switch rng.Intn(4) {
				case 0:
					time.Sleep(time.Duration(rng.Intn(300)) * time.Microsecond)
				case 1:
					runtime.Gosched()
				case 2:
					for t := time.Now(); time.Since(t) < time.Duration(rng.Intn(50))*time.Microsecond; {
					}
				}
			}
			priv := filepath.Join(dir, fmt.Sprintf("priv-%d-%d", os.Getpid(), g))
			for i := 0; i < N; i++ {
				if probes && rng.Intn(16) == 0 {
					// release probe: an acquisition on a path nobody else uses, ended in every way an entry
					// point can end (function / content reader failing included); once the call has
					// returned, a non-blocking exclusive flock on a fresh descriptor must be granted
					kind := []string{"Write", "Write whose content reader fails", "Transform", "Transform whose function fails", "Create+Close", "Edit+Close", "Open+Close", "Mutex.Lock+unlock",
						"Create+Close with the descriptor duplicated", "Edit+Close with the descriptor duplicated", "Open+Close with the descriptor duplicated",
						"OpenFile(O_CREATE|O_EXCL) of a new path+Close", "OpenFile(O_CREATE|O_EXCL) of a new path+Close",
						"OpenFile(O_RDONLY|O_CREATE)+Close", "OpenFile(O_RDONLY|O_CREATE)+Close"}[rng.Intn(15)]
					// "with the descriptor duplicated": a second descriptor for the same open file description
					// exists when Close is called (what a child process that inherited the descriptor, or a
					// fork in progress in another goroutine, amounts to): Close must release the lock itself,
					// closing one of two descriptors does not
					dupFd := -1
					withDup := strings.HasSuffix(kind, " with the descriptor duplicated")
					kind0 := strings.TrimSuffix(kind, " with the descriptor duplicated")
					var err error
					wantErr := false
					switch kind {
					case "Write":
						err = lockedfile.Write(priv, strings.NewReader("probe"), 0o666)
					case "Write whose content reader fails":
						wantErr = true
						err = lockedfile.Write(priv, io.MultiReader(strings.NewReader("pro"), failingReader{}), 0o666)
					case "Transform":
						err = lockedfile.Transform(priv, func(old []byte) ([]byte, error) { return append(old[:len(old):len(old)], 'x'), nil })
					case "Transform whose function fails":
						wantErr = true
						err = lockedfile.Transform(priv, func(old []byte) ([]byte, error) { return nil, errProbe })
					case "Create+Close", "Edit+Close", "Open+Close", "Create+Close with the descriptor duplicated", "Edit+Close with the descriptor duplicated", "Open+Close with the descriptor duplicated",
						"OpenFile(O_CREATE|O_EXCL) of a new path+Close", "OpenFile(O_RDONLY|O_CREATE)+Close":
						var f *lockedfile.File
						readHeld := false
						switch kind0 {
						case "OpenFile(O_RDONLY|O_CREATE)+Close":
							// read-only, whatever else the flags say: a read lock, which other readers share
							readHeld = true
							f, err = lockedfile.OpenFile(priv, os.O_RDONLY|os.O_CREATE, 0o666)
						case "OpenFile(O_CREATE|O_EXCL) of a new path+Close":
							// the holder creates the lock file itself: nobody can have locked it before, anybody can try after
							os.Remove(priv)
							f, err = lockedfile.OpenFile(priv, os.O_RDWR|os.O_CREATE|os.O_EXCL, 0o666)
						case "Create+Close":
							f, err = lockedfile.Create(priv)
						case "Edit+Close":
							f, err = lockedfile.Edit(priv)
						default:
							readHeld = true
							if f, err = lockedfile.Open(priv); errors.Is(err, fs.ErrNotExist) {
								readHeld = false // the path does not exist yet: created (write-locked) instead
								f, err = lockedfile.Create(priv)
							}
						}
						if err == nil {
							if withDup {
								dupFd, _ = syscall.Dup(int(f.Fd()))
							}
							dwell()
							// held probe: while the File is open, an exclusive lock request on a fresh descriptor
							// (what any other party's acquisition amounts to) must be refused
							if hf, herr := os.OpenFile(priv, os.O_RDWR, 0); herr == nil {
								if ferr := syscall.Flock(int(hf.Fd()), syscall.LOCK_EX|syscall.LOCK_NB); ferr == nil {
									viol("lock-not-held", fmt.Sprintf("pid %d: %s on %s has returned a File that is still open, but the file is not locked: a non-blocking exclusive flock on a fresh descriptor was granted", os.Getpid(), kind0, filepath.Base(priv)))
									syscall.Flock(int(hf.Fd()), syscall.LOCK_UN)
								}
								if readHeld {
									// a read lock excludes only writers: another reader gets in
									if ferr := syscall.Flock(int(hf.Fd()), syscall.LOCK_SH|syscall.LOCK_NB); ferr == syscall.EWOULDBLOCK {
										viol("read-lock-not-shared", fmt.Sprintf("pid %d: while %s holds %s (a read lock), a non-blocking shared flock on a fresh descriptor is refused: readers exclude each other", os.Getpid(), kind0, filepath.Base(priv)))
									} else if ferr == nil {
										syscall.Flock(int(hf.Fd()), syscall.LOCK_UN)
									}
								}
								hf.Close()
								mu.Lock()
								res.Acq["(held probe) "+kind0]++
								mu.Unlock()
							}
							err = f.Close()
						}
					default:
						var unlock func()
						if unlock, err = lockedfile.MutexAt(priv).Lock(); err == nil {
							dwell()
							unlock()
						}
					}
					if wantErr != (err != nil) || (wantErr && !errors.Is(err, errProbe)) {
						viol("release-probe-error", fmt.Sprintf("%s on a private path returned %v", kind, err))
						if dupFd >= 0 {
							syscall.Close(dupFd)
						}
						continue
					}
					if pf, perr := os.OpenFile(priv, os.O_RDWR, 0); perr == nil {
						if ferr := syscall.Flock(int(pf.Fd()), syscall.LOCK_EX|syscall.LOCK_NB); ferr == syscall.EWOULDBLOCK {
							viol("lock-not-released", fmt.Sprintf("pid %d: %s on %s (a path no other client uses) has returned, but the file is still locked: a non-blocking exclusive flock on a fresh descriptor is refused", os.Getpid(), kind, filepath.Base(priv)))
						} else if ferr == nil {
							syscall.Flock(int(pf.Fd()), syscall.LOCK_UN)
						}
						pf.Close()
						mu.Lock()
						res.Acq["(release probe) "+kind]++
						mu.Unlock()
					}
					if dupFd >= 0 {
						syscall.Close(dupFd)
					}
					continue
				}
				pi := rng.Intn(NP)
				path := filepath.Join(dir, fmt.Sprintf("lock%d", pi))
				api := apis[rng.Intn(len(apis))]
				if unpriv {
					// read-only lock files, unprivileged process: every write-locking entry point must be
					// refused (no lock at all); read locks work and may be shared
					api = []string{"Mutex.Lock", "Mutex.Lock", "Open", "OpenFile(O_RDONLY)", "Edit", "OpenFile(O_RDWR)"}[rng.Intn(6)]
				}
				// a path that cannot be truncated (device node, FIFO): Transform would fail on it,
				// and a FIFO would fill up under Write - use the entry points that only lock
				for pi == nonreg && (api == "Transform" || (api == "Write" && nonregKind == "fifo")) {
					api = apis[rng.Intn(len(apis))]
				}
				writer := api != "OpenFile(O_RDONLY)" && api != "Open"
				enter := func() {
					var v uint64
					if writer {
						v = words.Add(pi, wr)
						if v != wr {
							viol("writer-not-alone", fmt.Sprintf("pid %d: %s on lock%d returned while the occupancy word shows %d writer(s) and %d reader(s) inside (including this writer)", os.Getpid(), api, pi, v>>32, v&0xffffffff))
						}
					} else {
						v = words.Add(pi, 1)
						if v>>32 != 0 {
							viol("reader-with-writer", fmt.Sprintf("pid %d: %s on lock%d returned while %d writer(s) are inside (readers inside: %d)", os.Getpid(), api, pi, v>>32, v&0xffffffff))
						}
						for {
							m := atomic.LoadInt64(&maxReaders)
							if int64(v&0xffffffff) <= m || atomic.CompareAndSwapInt64(&maxReaders, m, int64(v&0xffffffff)) {
								break
							}
						}
					}
					dwell()
					// still alone at the end of the critical section?
					v = words.Load(pi)
					if writer && v != wr {
						viol("writer-joined", fmt.Sprintf("pid %d: while holding %s on lock%d the occupancy word became writers=%d readers=%d", os.Getpid(), api, pi, v>>32, v&0xffffffff))
					}
					if !writer && v>>32 != 0 {
						viol("reader-joined-by-writer", fmt.Sprintf("pid %d: while holding %s on lock%d a writer entered (writers=%d)", os.Getpid(), api, pi, v>>32))
					}
				}
				leave := func() {
					if writer {
						words.Add(pi, ^(wr - 1)) // subtract 2^32
					} else {
						words.Add(pi, ^uint64(0))
					}
				}
				// contention sample before the call
				if v := words.Load(pi); (writer && v != 0) || (!writer && v>>32 != 0) {
					atomic.AddInt64(&contended, 1)
				}
				var err error
				switch api {
				case "OpenFile(O_RDONLY)", "Open", "OpenFile(O_WRONLY)", "OpenFile(O_RDWR)", "Create", "Edit":
					var f *lockedfile.File
					switch api {
					case "OpenFile(O_RDONLY)":
						f, err = lockedfile.OpenFile(path, os.O_RDONLY, 0)
					case "Open":
						f, err = lockedfile.Open(path)
					case "OpenFile(O_WRONLY)":
						f, err = lockedfile.OpenFile(path, os.O_WRONLY|os.O_CREATE, 0o666)
					case "OpenFile(O_RDWR)":
						f, err = lockedfile.OpenFile(path, os.O_RDWR|os.O_CREATE, 0o666)
					case "Create":
						f, err = lockedfile.Create(path)
					case "Edit":
						f, err = lockedfile.Edit(path)
					}
					if err == nil {
						enter()
						leave()
						err = f.Close()
					}
				case "Mutex.Lock":
					var unlock func()
					unlock, err = mutexes[pi].Lock()
					if err == nil {
						enter()
						leave()
						unlock()
					}
				case "Transform":
					err = lockedfile.Transform(path, func(old []byte) ([]byte, error) {
						enter()
						leave()
						return []byte(fmt.Sprintf("t %d %d\n", os.Getpid(), i)), nil
					})
				case "Write":
					cr := &contentReader{enter: enter, leave: leave, data: []byte(fmt.Sprintf("w %d %d\n", os.Getpid(), i))}
					err = lockedfile.Write(path, cr, 0o666)
				}
				if err != nil && nosys && (errors.Is(err, syscall.ENOSYS) || strings.Contains(err.Error(), "function not implemented")) {
					mu.Lock()
					res.Acq["(refused or unlock failed: flock not implemented) "+api]++
					mu.Unlock()
					continue
				}
				if err != nil && unpriv && errors.Is(err, fs.ErrPermission) {
					mu.Lock()
					res.Acq["(refused: read-only lock file, unprivileged) "+api]++
					mu.Unlock()
					continue
				}
				if err != nil {
					mu.Lock()
					if len(res.Errors) < 5 {
						res.Errors = append(res.Errors, fmt.Sprintf("%s: %v", api, err))
					}
					mu.Unlock()
					continue
				}
				mu.Lock()
				res.Acq[api]++
				if pi == nonreg {
					res.Acq["(on the "+nonregKind+" path) "+api]++
				}
				mu.Unlock()
			}
		}(g)
	}
	wg.Wait()
	res.MaxReaders = maxReaders
	res.Contended = contended
	b, _ := json.Marshal(&res)
	os.WriteFile(os.Getenv("C06_OUT"), b, 0o666)
}

type ccase struct {
	Kind   string `json:"kind"`
	Round  int    `json:"round"`
	Detail string `json:"detail"`
}

// forgetful: a holder that loses its only reference to the File (or to the unlock function) without
// closing. The lock is held until Close or unlock is called - not until the collector happens to run: as
// long as this process lives, nobody else gets the lock. (On the tree the leaked File's finalizer ends
// the process, which is one way of keeping that promise.)
//
//go:noinline
func forgetfulAcquire(kind, path string) error {
	switch kind {
	case "Edit":
		_, err := lockedfile.Edit(path)
		return err
	case "Create":
		_, err := lockedfile.Create(path)
		return err
	default:
		_, err := lockedfile.MutexAt(path).Lock()
		return err
	}
}

func forgetful() {
	path, kind, marker := os.Getenv("C06_PATH"), os.Getenv("C06_KIND"), os.Getenv("C06_MARKER")
	if err := forgetfulAcquire(kind, path); err != nil {
		os.WriteFile(marker, []byte("error "+err.Error()), 0o666)
		return
	}
	for i := 0; i < 8; i++ {
		runtime.GC()
		time.Sleep(10 * time.Millisecond)
	}
	os.WriteFile(marker+".tmp", []byte("alive"), 0o666)
	os.Rename(marker+".tmp", marker)
	time.Sleep(20 * time.Second) // the parent ends this process
}

func forgetfulCases(r *vlib.Run, base string) {
	for i, kind := range []string{"Edit", "Create", "Mutex.Lock", "Edit", "Mutex.Lock"} {
		dir := filepath.Join(base, fmt.Sprintf("forget%d", i))
		os.MkdirAll(dir, 0o777)
		path, marker := filepath.Join(dir, "lock"), filepath.Join(dir, "marker")
		os.WriteFile(path, []byte("x"), 0o666)
		cmd := exec.Command(os.Args[0])
		cmd.Env = append(os.Environ(), "C06_FORGETFUL=1", "C06_PATH="+path, "C06_KIND="+kind, "C06_MARKER="+marker, "GOMAXPROCS=2")
		if err := cmd.Start(); err != nil {
			r.Inconclusive("cannot start the forgetful holder: " + err.Error())
			return
		}
		done := make(chan struct{})
		go func() { cmd.Wait(); close(done) }()
		alive := false
	wait:
		for t := 0; t < 1000; t++ {
			select {
			case <-done:
				break wait
			case <-time.After(10 * time.Millisecond):
			}
			if b, err := os.ReadFile(marker); err == nil {
				if strings.HasPrefix(string(b), "error") {
					r.Inconclusive("forgetful holder: " + string(b))
				}
				alive = string(b) == "alive"
				break
			}
		}
		r.Count("forgetful_holder_cases", 1)
		if alive {
			// the holder is alive, several collections after it dropped its reference: the lock is still its
			if pf, err := os.OpenFile(path, os.O_RDWR, 0); err == nil {
				ferr := syscall.Flock(int(pf.Fd()), syscall.LOCK_EX|syscall.LOCK_NB)
				stillAlive := syscall.Kill(cmd.Process.Pid, 0) == nil
				select {
				case <-done:
					stillAlive = false
				default:
				}
				if ferr == nil && stillAlive {
					r.Violation(fmt.Sprintf("lock-released-without-close kind=%s", kind),
						fmt.Sprintf("process %d took the lock through %s, dropped its reference without calling Close / unlock and is still alive; another process was granted the lock", cmd.Process.Pid, kind),
						ccase{"lock-released-without-close", -1, kind})
				}
				pf.Close()
			}
			r.Count("forgetful_holders_still_alive_and_holding", 1)
		} else {
			r.Count("forgetful_holders_ended_by_the_finalizer", 1)
		}
		cmd.Process.Kill()
		<-done
		os.RemoveAll(dir)
	}
}

func main() {
	if os.Getenv("C06_FORGETFUL") == "1" {
		forgetful()
		return
	}
	if os.Getenv("C06_WORKER") == "1" {
		worker()
		return
	}
	vlib.Main("C06", "exploration", 10*time.Minute, func(r *vlib.Run) {
		r.Rule("rounds of P processes x G goroutines released together, each doing N acquisitions on 2-3 lock paths (regular files; every other round also one private character device or FIFO, whose truncation by Create/Write fails and is tolerated) through a random entry point (OpenFile O_RDONLY/O_WRONLY/O_RDWR, Open, Create, Edit, Mutex.Lock, inside Transform's function, inside the reader handed to Write), dwelling 0-300us inside, with seeded delays at the lockedfile.open/close hooks; every second worker process closes its standard input first, so that lock files are opened on descriptor 0; one round in six runs its workers as uid 65534 on lock files they can read but not write (write-locking entry points must be refused, not weakened); every third round the workers run under strace, which makes every other flock call of every thread fail with EINTR (an interrupted lock request must be reissued, never taken for granted) or, in every other such round, every third one with ENOSYS (a refused lock request must surface as an error, never as an unlocked file); in the other rounds one operation in 16 is a release probe: an acquisition on a path private to the goroutine, ended in each way an entry point can end (Write / Write whose content reader fails / Transform / Transform whose function fails / Create, Edit, Open + Close, also while a duplicate of the descriptor is open elsewhere, OpenFile with O_CREATE|O_EXCL of a path that does not exist yet / Mutex.Lock + unlock; OpenFile(O_RDONLY|O_CREATE); while a File is open an exclusive request on a fresh descriptor must be refused, and a shared one granted when the File is a reader's), after whose return a non-blocking exclusive flock on a fresh descriptor must be granted; five holders (Edit / Create / Mutex.Lock) that drop their reference without closing and run the collector: while such a process lives nobody else is granted the lock. Evaluations = acquisitions; distinct non-trivial = acquisitions that found a conflicting holder inside when they were invoked (had to wait), plus rounds.")
		r.Assume("flock semantics of the host kernel; the occupancy word is updated only between an acquiring call's return and the releasing call's invocation")
		base := vlib.Scratch()
		rounds := r.Pick(6, 28)
		// a copy of this binary that uid 65534 can execute wherever /verif lives
		workerBin := ""
		os.Chmod(base, 0o777)
		if b, err := os.ReadFile(os.Args[0]); err == nil {
			wb := filepath.Join(base, "c06worker")
			if os.WriteFile(wb, b, 0o755) == nil && os.Chmod(wb, 0o755) == nil {
				workerBin = wb
			}
		}
		_, sterr := exec.LookPath("strace")
		haveStrace := sterr == nil
		rng := r.Rand("rounds")
		racePrefix := filepath.Join(base, "race")
		tot := result{Acq: map[string]int64{}, Hook: map[string]int64{}}
		seenV := map[string]int{}
		var total int64
		for round := 0; round < rounds; round++ {
			dir := filepath.Join(base, fmt.Sprintf("r%d", round))
			os.MkdirAll(dir, 0o777)
			NP := 2 + rng.Intn(2)
			for i := 0; i < NP; i++ {
				os.WriteFile(filepath.Join(dir, fmt.Sprintf("lock%d", i)), []byte("init\n"), 0o666)
			}
			// every other round one more path is a file that cannot be truncated: a private
			// character device (a clone of /dev/null) or, where mknod is not permitted, a FIFO
			// kept open read-write by this process so that opening it never blocks. O_TRUNC
			// opens (Create, Write) tolerate the failing truncation there and must still lock.
			nonreg, nonregKind := -1, ""
			var fifoHolder *os.File
			if round%2 == 1 {
				np := filepath.Join(dir, fmt.Sprintf("lock%d", NP))
				if err := syscall.Mknod(np, syscall.S_IFCHR|0o666, 1<<8|3); err == nil {
					if f, err := os.OpenFile(np, os.O_RDWR, 0); err == nil {
						f.Close()
						nonreg, nonregKind = NP, "chardev"
					} else {
						os.Remove(np)
					}
				}
				if nonreg < 0 {
					if err := syscall.Mkfifo(np, 0o666); err == nil {
						if f, err := os.OpenFile(np, os.O_RDWR, 0); err == nil {
							fifoHolder = f
							nonreg, nonregKind = NP, "fifo"
						}
					}
				}
				if nonreg >= 0 {
					NP++
					r.Count("rounds_with_a_"+nonregKind+"_lock_path", 1)
				}
			}
			words, err := vlib.OpenSharedWords(filepath.Join(dir, "words"), 16)
			if err != nil {
				r.Inconclusive(err.Error())
				return
			}
			// one round runs its workers as uid 65534 on lock files they can read but not write:
			// Mutex.Lock and the other write-locking entry points must then fail, not fall back to
			// something weaker
			unprivRound := round%6 == 3 && os.Getuid() == 0 && workerBin != ""
			if unprivRound {
				os.Chmod(dir, 0o777)
				os.Chmod(filepath.Join(dir, "words"), 0o666)
				for i := 0; i < NP; i++ {
					os.Chmod(filepath.Join(dir, fmt.Sprintf("lock%d", i)), 0o444)
				}
				r.Count("rounds_unprivileged_on_read_only_lock_files", 1)
			}
			// every third round the workers run under strace with EINTR injected into flock
			eintrRound := round%3 == 2 && haveStrace
			nosysRound := eintrRound && (round/3)%2 == 1
			var straceLogs []string
			if eintrRound && !nosysRound {
				r.Count("rounds_with_EINTR_injected_into_flock", 1)
			}
			if nosysRound {
				r.Count("rounds_with_ENOSYS_injected_into_flock", 1)
			}
			P := r.Pick(4, 8)
			G := r.Pick(8, 16)
			N := r.Pick(200, 1000)
			var cmds []*exec.Cmd
			var outs []string
			for p := 0; p < P; p++ {
				out := filepath.Join(dir, fmt.Sprintf("res%d.json", p))
				outs = append(outs, out)
				cmd := exec.Command(os.Args[0])
				if unprivRound {
					cmd = exec.Command(workerBin)
					cmd.SysProcAttr = &syscall.SysProcAttr{Credential: &syscall.Credential{Uid: 65534, Gid: 65534}}
				}
				if eintrRound && !unprivRound {
					// every other flock call of every thread of this worker fails with EINTR (the
					// system call is not executed): an interrupted request must be reissued, never
					// taken for a granted lock
					slog := filepath.Join(dir, fmt.Sprintf("strace%d.log", p))
					straceLogs = append(straceLogs, slog)
					inj := "inject=flock:error=EINTR:when=1+2"
					if nosysRound {
						// the locking call is refused outright (ENOSYS, as under a seccomp filter or on a
						// mount without advisory locks): the caller must get an error, never an unlocked file
						inj = "inject=flock:error=ENOSYS:when=2+3"
					}
					cmd = exec.Command("strace", "-f", "-qq", "--seccomp-bpf", "-e", "trace=flock", "-e", inj, "-o", slog, os.Args[0])
				}
				cmd.Env = append(os.Environ(), "C06_WORKER=1", "C06_DIR="+dir, "C06_OUT="+out,
					fmt.Sprintf("C06_SEED=%d", r.SubSeed(fmt.Sprintf("w-%d-%d", round, p))%1_000_000),
					fmt.Sprintf("C06_G=%d", G), fmt.Sprintf("C06_N=%d", N), fmt.Sprintf("C06_PATHS=%d", NP), fmt.Sprintf("C06_CLOSE_STDIN=%d", p%2), fmt.Sprintf("C06_NOSYS=%d", map[bool]int{true: 1}[nosysRound]), fmt.Sprintf("C06_UNPRIV=%d", map[bool]int{true: 1}[unprivRound]), fmt.Sprintf("C06_NONREG=%d", nonreg), "C06_NONREG_KIND="+nonregKind, fmt.Sprintf("C06_PROBE=%d", map[bool]int{true: 1}[!eintrRound && !unprivRound]), vlib.RaceEnv(racePrefix))
				cmd.Stderr = os.Stderr
				if err := cmd.Start(); err != nil {
					r.Inconclusive(err.Error())
					return
				}
				cmds = append(cmds, cmd)
			}
			time.Sleep(150 * time.Millisecond)
			words.Store(15, 1)
			for _, c := range cmds {
				if err := c.Wait(); err != nil {
					r.Inconclusive(fmt.Sprintf("worker exited abnormally: %v", err))
				}
			}
			for _, o := range outs {
				b, err := os.ReadFile(o)
				if err != nil {
					r.Inconclusive("worker wrote no result")
					continue
				}
				var wr result
				json.Unmarshal(b, &wr)
				for k, v := range wr.Acq {
					tot.Acq[k] += v
					total += v
				}
				for k, v := range wr.Hook {
					tot.Hook[k] += v
				}
				tot.Contended += wr.Contended
				if wr.MaxReaders > tot.MaxReaders {
					tot.MaxReaders = wr.MaxReaders
				}
				for _, e := range wr.Errors {
					r.Inconclusive("acquisition failed: " + e)
				}
				for _, v := range wr.Violations {
					seenV[v["kind"]]++
					if seenV[v["kind"]] <= 3 {
						r.Violation(fmt.Sprintf("%s round=%d seed=%d n=%d", v["kind"], round, r.Seed, seenV[v["kind"]]), v["kind"]+": "+v["detail"], ccase{v["kind"], round, v["detail"]})
					}
				}
			}
			for _, sl := range straceLogs {
				if b, err := os.ReadFile(sl); err == nil {
					r.Count("flock_calls_failed_with_an_injected_errno", int64(strings.Count(string(b), "(INJECTED)")))
				}
			}
			// quiescence: all words must be back to zero
			for i := 0; i < NP; i++ {
				if v := words.Load(i); v != 0 {
					r.Inconclusive(fmt.Sprintf("occupancy word of lock%d is %#x after the round (monitor bookkeeping broken)", i, v))
				}
			}
			words.Close()
			if fifoHolder != nil {
				fifoHolder.Close()
			}
			os.RemoveAll(dir)
			if round == 0 {
				r.Sample(map[string]any{"kind": "round", "processes": P, "goroutines": G, "acquisitions_per_goroutine": N, "paths": NP})
			}
		}
		r.Eval(total)
		r.DistinctBulk(tot.Contended + int64(rounds))
		r.Set("acquisitions_by_entry_point", tot.Acq)
		r.Set("acquisitions_that_found_a_conflicting_holder", tot.Contended)
		r.Set("max_simultaneous_readers", tot.MaxReaders)
		r.Set("hook_hits", tot.Hook)
		forgetfulCases(r, base)
		r.ReportRaces(racePrefix)
		if tot.MaxReaders < 2 {
			r.Inconclusive("never observed two readers inside at once (read locks may be shared - not exercised)")
		}
		if tot.Contended < 100 {
			r.Inconclusive("too few contended acquisitions observed")
		}
	})
}
