// C15: txtar.Write stays inside its directory; txtar-c | txtar-x round-trips.
// Oracle: snapshot of a sandbox parent directory before/after Write, an
// independent lexical resolver for entry names, and tree equality for the
// real txtar-c / txtar-x binaries built from the tree under test.
package main

import (
	"bytes"
	"crypto/sha256"
	"encoding/hex"
	"fmt"
	"io/fs"
	"math/rand"
	"os"
	"os/exec"
	"path/filepath"
	"runtime"
	"sort"
	"strings"
	"sync"
	"sync/atomic"
	"time"
	"unicode/utf8"

	"github.com/rogpeppe/go-internal/txtar"
	xt "golang.org/x/tools/txtar"

	"verif/vlib"
)

type entry struct {
	Name string `json:"name"`
	Data string `json:"data"`
}

type wcase struct {
	Kind    string   `json:"kind"`
	Entries []entry  `json:"entries"`
	Pre     []string `json:"preexisting_in_dir"`
	Detail  string   `json:"detail"`
}

var (
	run      *vlib.Run
	kindMu   sync.Mutex
	kindSeen = map[string]int{}
)

func limited(kind string) bool {
	kindMu.Lock()
	defer kindMu.Unlock()
	kindSeen[kind]++
	return kindSeen[kind] > 4
}

type fileInfo struct {
	mode fs.FileMode
	size int64
	sum  string
	mt   time.Time
	link string
}

func snapshot(root string) map[string]fileInfo {
	m := map[string]fileInfo{}
	filepath.Walk(root, func(p string, info fs.FileInfo, err error) error {
		if err != nil {
			return nil
		}
		rel, _ := filepath.Rel(root, p)
		fi := fileInfo{mode: info.Mode(), mt: info.ModTime()}
		if info.Mode().IsRegular() {
			b, _ := os.ReadFile(p)
			s := sha256.Sum256(b)
			fi.sum = hex.EncodeToString(s[:8])
			fi.size = info.Size()
		} else if info.Mode()&fs.ModeSymlink != 0 {
			fi.link, _ = os.Readlink(p)
		}
		if info.IsDir() {
			fi.mt = time.Time{} // directory mtimes change when children are created
		}
		m[rel] = fi
		return nil
	})
	return m
}

// resolve: lexical resolution of a slash-separated entry name relative to the
// target directory. inside=false if the name is absolute, climbs above the
// directory at its end, or names the directory itself.
func resolve(name string) (rel string, inside bool) {
	if strings.HasPrefix(name, "/") {
		return "", false
	}
	var stack []string
	under := 0
	for _, seg := range strings.Split(name, "/") {
		switch seg {
		case "", ".":
		case "..":
			if len(stack) > 0 {
				stack = stack[:len(stack)-1]
			} else {
				under++
			}
		default:
			stack = append(stack, seg)
		}
	}
	if under > 0 || len(stack) == 0 {
		return "", false
	}
	return strings.Join(stack, "/"), true
}

var segPool = []string{"a", "b", ".", "..", "", "c d", "é", "..a", "a..", "...", "sib", "dir"}

func genName(r *rand.Rand) string {
	n := 1 + r.Intn(5)
	var segs []string
	for i := 0; i < n; i++ {
		segs = append(segs, segPool[r.Intn(len(segPool))])
	}
	s := strings.Join(segs, "/")
	if r.Intn(6) == 0 {
		s = "/" + s
	}
	if r.Intn(40) == 0 {
		s = "../dir/" + s // climbs out and comes back in lexically
	}
	return s
}

var nErr, nOK, nEscapeNames, nSymlinked, nRaces, nRaceWinners, nHarmless int64

func writeCase(r *rand.Rand, base string, idx int) {
	run.Eval(1)
	parent := filepath.Join(base, fmt.Sprintf("w%d", idx))
	dir := filepath.Join(parent, "mid", "dir")
	must := func(err error) {
		if err != nil {
			panic(err)
		}
	}
	must(os.MkdirAll(dir, 0o777))
	defer os.RemoveAll(parent)
	// canaries outside the directory
	must(os.WriteFile(filepath.Join(parent, "top.txt"), []byte("top\n"), 0o644))
	must(os.WriteFile(filepath.Join(parent, "mid", "sib"), []byte("sibling\n"), 0o644))
	must(os.WriteFile(filepath.Join(parent, "mid", "a"), []byte("outer a\n"), 0o644))
	must(os.MkdirAll(filepath.Join(parent, "mid", "b"), 0o777))
	// pre-existing content inside the directory
	var pre []string
	for _, p := range []string{"a", "b/x", "c d", "é", "dir/a"} {
		if r.Intn(4) == 0 {
			fp := filepath.Join(dir, filepath.FromSlash(p))
			os.MkdirAll(filepath.Dir(fp), 0o777)
			if os.WriteFile(fp, []byte("pre "+p+"\n"), 0o644) == nil {
				pre = append(pre, p)
			}
		}
	}
	if r.Intn(8) == 0 {
		if os.MkdirAll(filepath.Join(dir, "a.d"), 0o777) == nil {
			pre = append(pre, "a.d/")
		}
	}
	a := &xt.Archive{}
	var ents []entry
	ne := 1 + r.Intn(6)
	anyOutside := false
	for i := 0; i < ne; i++ {
		n := genName(r)
		if i > 0 && r.Intn(8) == 0 {
			n = a.Files[r.Intn(len(a.Files))].Name // duplicate
		}
		d := fmt.Sprintf("data %d of %q\n", i, n)
		switch r.Intn(10) {
		case 0, 1:
			d = ""
		case 2:
			d = strings.TrimSuffix(d, "\n") // an archive built in code: no final newline (Parse would have added one)
		case 3:
			d = []string{"x", "\n", "\r", "a\r\n", "line\nlast", "-- marker --", "\x00\xff", "\n\n"}[r.Intn(8)]
		}
		a.Files = append(a.Files, xt.File{Name: n, Data: []byte(d)})
		ents = append(ents, entry{n, d})
		if _, in := resolve(n); !in {
			anyOutside = true
		}
	}
	if anyOutside {
		atomic.AddInt64(&nEscapeNames, 1)
	}
	// Sometimes the path of an entry already holds a symbolic link whose target is not a
	// directory (dangling - towards a place outside or inside the directory - or an existing
	// file): an existing directory entry that Write must neither replace nor write through.
	// (Symlinked *directories* on the way to an entry stay excluded, see Assume.)
	if r.Intn(4) == 0 {
		for i, e := range ents {
			rel, in := resolve(e.Name)
			if !in || r.Intn(2) == 0 {
				continue
			}
			fp := filepath.Join(dir, filepath.FromSlash(rel))
			if _, lerr := os.Lstat(fp); lerr == nil {
				continue
			}
			if os.MkdirAll(filepath.Dir(fp), 0o777) != nil {
				continue
			}
			target := []string{
				filepath.Join(parent, fmt.Sprintf("escaped-%d.txt", i)),    // dangling, outside
				filepath.Join(parent, "mid", fmt.Sprintf("escaped-%d", i)), // dangling, outside
				filepath.Join(dir, fmt.Sprintf("inside-target-%d", i)),     // dangling, inside
				filepath.Join(parent, "top.txt"),                           // existing file outside
				fmt.Sprintf("../../relative-escape-%d", i),                 // dangling, relative
			}[r.Intn(5)]
			if os.Symlink(target, fp) == nil {
				pre = append(pre, rel+" -> "+target)
				atomic.AddInt64(&nSymlinked, 1)
			}
			break
		}
	}
	before := snapshot(parent)
	var err error
	if pv, st := vlib.Try(func() { err = txtar.Write(a, dir) }); pv != nil {
		if !limited("write-panic") {
			run.Violation(fmt.Sprintf("write-panic names=%q", names(ents)), fmt.Sprintf("txtar.Write panicked: %v at %s", pv, vlib.RepoFrame(st)), wcase{"write-panic", ents, pre, fmt.Sprint(pv)})
		}
		return
	}
	after := snapshot(parent)
	fail := func(kind, detail string) {
		if limited(kind) {
			run.Count("suppressed_duplicate_reports_"+kind, 1)
			return
		}
		run.Violation(fmt.Sprintf("%s names=%q pre=%q", kind, names(ents), pre), kind+": "+detail+fmt.Sprintf(" (entries %q, pre-existing %q, Write error: %v)", names(ents), pre, err), wcase{kind, ents, pre, detail})
	}
	dirRel := filepath.Join("mid", "dir")
	// 1. nothing outside dir changes; nothing pre-existing changes
	for p, b := range before {
		aft, ok := after[p]
		if !ok {
			fail("preexisting-path-removed", fmt.Sprintf("%s existed before Write and is gone", p))
			continue
		}
		if b != aft {
			fail("preexisting-path-changed", fmt.Sprintf("%s changed: before %+v after %+v", p, b, aft))
		}
	}
	created := map[string]bool{}
	for p := range after {
		if _, ok := before[p]; ok {
			continue
		}
		if !strings.HasPrefix(p, dirRel+string(filepath.Separator)) {
			fail("created-outside-directory", fmt.Sprintf("new path %s is not beneath %s", p, dirRel))
			continue
		}
		created[strings.TrimPrefix(filepath.ToSlash(p), filepath.ToSlash(dirRel)+"/")] = true
	}
	// 2. an absolute or climbing name must be reported
	if anyOutside && err == nil {
		fail("no-error-for-escaping-name", "an entry name is absolute, climbs out through '..' or names the directory itself, but Write returned nil")
	}
	if err != nil {
		atomic.AddInt64(&nErr, 1)
		// 2b. an archive that gives Write no reason to fail: every name resolves to a place inside the
		// directory, nothing existed there before, no two entries name the same file and none needs another
		// one's file as a directory
		if !anyOutside && len(pre) == 0 {
			harmless := true
			var rels []string
			for _, e := range ents {
				rel, _ := resolve(e.Name)
				rels = append(rels, rel)
			}
			for i := range rels {
				for j := range rels {
					if i != j && (rels[i] == rels[j] || strings.HasPrefix(rels[j], rels[i]+"/")) {
						harmless = false
					}
				}
			}
			if harmless {
				atomic.AddInt64(&nHarmless, 1)
				fail("error-for-harmless-archive", fmt.Sprintf("Write failed with %q although every entry names a new file inside the (empty) directory", err))
			}
		}
		return
	}
	if !anyOutside && len(pre) == 0 {
		atomic.AddInt64(&nHarmless, 1)
	}
	atomic.AddInt64(&nOK, 1)
	// 3. on success each file holds exactly its entry's data
	for _, e := range ents {
		rel, in := resolve(e.Name)
		if !in {
			continue
		}
		got, rerr := os.ReadFile(filepath.Join(dir, filepath.FromSlash(rel)))
		if rerr != nil {
			fail("entry-not-written", fmt.Sprintf("Write succeeded but %q (resolved %q) cannot be read: %v", e.Name, rel, rerr))
			continue
		}
		if string(got) != e.Data {
			fail("entry-has-wrong-content", fmt.Sprintf("%q holds %q, want %q", e.Name, got, e.Data))
		}
		if !created[rel] {
			fail("overwrote-existing-file", fmt.Sprintf("Write succeeded for %q although %q existed before", e.Name, rel))
		}
	}
	run.Distinct(strings.Join(names(ents), "\x00") + "|" + strings.Join(pre, "\x00"))
}

// raceCase: several extractions of archives naming the same files into one fresh
// directory at once. O_EXCL means one creator per file: a Write that returned nil
// created every one of its files, so each of them must hold that Write's data
// afterwards, and every file must hold the data of exactly one of the writers.
func raceCase(r *rand.Rand, base string, idx int) {
	run.Eval(1)
	dir := filepath.Join(base, fmt.Sprintf("race%d", idx))
	if os.MkdirAll(dir, 0o777) != nil {
		return
	}
	defer os.RemoveAll(dir)
	K := 2 + r.Intn(3)
	nn := 1 + r.Intn(3)
	var fnames []string
	for i := 0; i < nn; i++ {
		fnames = append(fnames, []string{"f", "sub/g", "sub/deep/h", "x y"}[(i+r.Intn(4))%4])
	}
	archives := make([]*xt.Archive, K)
	for k := range archives {
		a := &xt.Archive{}
		for _, n := range fnames {
			a.Files = append(a.Files, xt.File{Name: n, Data: []byte(fmt.Sprintf("writer %d wrote %s %s\n", k, n, strings.Repeat("*", r.Intn(3000))))})
		}
		archives[k] = a
	}
	errs := make([]error, K)
	var wg sync.WaitGroup
	start := make(chan struct{})
	for k := 0; k < K; k++ {
		wg.Add(1)
		go func(k int) {
			defer wg.Done()
			<-start
			errs[k] = txtar.Write(archives[k], dir)
		}(k)
	}
	close(start)
	wg.Wait()
	atomic.AddInt64(&nRaces, 1)
	fail := func(kind, detail string) {
		if limited(kind) {
			return
		}
		run.Violation(fmt.Sprintf("%s writers=%d names=%q", kind, K, fnames), kind+": "+detail, wcase{kind, nil, fnames, detail})
	}
	for k := 0; k < K; k++ {
		if errs[k] != nil {
			continue
		}
		atomic.AddInt64(&nRaceWinners, 1)
		for _, f := range archives[k].Files {
			got, rerr := os.ReadFile(filepath.Join(dir, filepath.FromSlash(f.Name)))
			if rerr != nil || !bytes.Equal(got, f.Data) {
				fail("concurrent-extraction-overwrote-a-file", fmt.Sprintf("Write %d of %d concurrent extractions returned nil, but %q now holds %.40q (%v): another extraction wrote over it", k, K, f.Name, got, rerr))
			}
		}
	}
	seen := map[string]bool{}
	for _, n := range fnames {
		if seen[n] {
			continue
		}
		seen[n] = true
		got, rerr := os.ReadFile(filepath.Join(dir, filepath.FromSlash(n)))
		if rerr != nil {
			continue // every writer may have failed before reaching it
		}
		owner := -1
		for k := range archives {
			for _, f := range archives[k].Files {
				if f.Name == n && bytes.Equal(f.Data, got) {
					owner = k
				}
			}
		}
		if owner < 0 {
			fail("concurrent-extraction-mixed-content", fmt.Sprintf("%q holds %.60q, which is not the complete data of any single writer", n, got))
		}
	}
}

// extractFaultCase: the real txtar-x extracting under an injected I/O fault (every write from
// the k-th on fails with ENOSPC, the system call is not executed): it must either report
// failure (non-zero exit) or have written every file exactly - a file cut short behind a
// zero exit status is what "on success each file holds exactly the entry's data" forbids.
func extractFaultCase(r *rand.Rand, base string, idx int, bin string) {
	root := filepath.Join(base, fmt.Sprintf("xf%d", idx))
	dst := filepath.Join(root, "dst")
	os.MkdirAll(dst, 0o777)
	defer os.RemoveAll(root)
	a := &xt.Archive{}
	nf := 2 + r.Intn(4)
	for i := 0; i < nf; i++ {
		a.Files = append(a.Files, xt.File{Name: fmt.Sprintf("d%d/f%d.txt", i%2, i), Data: []byte(strings.Repeat(fmt.Sprintf("line %d of file %d\n", r.Intn(100), i), 1+r.Intn(3000)))})
	}
	k := 1 + r.Intn(nf)
	run.Eval(1)
	cmd := exec.Command("strace", "-f", "-qq", "-e", "trace=write", "-e", fmt.Sprintf("inject=write:error=ENOSPC:when=%d+", k), "-o", "/dev/null", filepath.Join(bin, "txtar-x"), "-C", dst)
	cmd.Stdin = bytes.NewReader(xt.Format(a))
	out, err := cmd.CombinedOutput()
	atomic.AddInt64(&nExtractFaults, 1)
	if err != nil {
		atomic.AddInt64(&nExtractFaultsReported, 1)
		return // the failure was reported
	}
	for _, f := range a.Files {
		got, rerr := os.ReadFile(filepath.Join(dst, filepath.FromSlash(f.Name)))
		if rerr != nil || !bytes.Equal(got, f.Data) {
			if !limited("extract-fault-silent") {
				run.Violation(fmt.Sprintf("extraction-fault-not-reported files=%d failing-from-write=%d", nf, k),
					fmt.Sprintf("txtar-x exited 0 although every write from the %d-th on failed with ENOSPC; %q holds %d of %d bytes (%v); output: %s", k, f.Name, len(got), len(f.Data), rerr, out),
					wcase{"extraction-fault-not-reported", nil, []string{f.Name}, fmt.Sprintf("write #%d+ -> ENOSPC", k)})
			}
			return
		}
	}
}

var nExtractFaults, nExtractFaultsReported int64

func names(es []entry) []string {
	var n []string
	for _, e := range es {
		n = append(n, e.Name)
	}
	return n
}

// ---------- txtar-c | txtar-x round trip ----------

type treeFile struct {
	Path string `json:"path"`
	Data string `json:"data"`
}

type tcase struct {
	Kind   string     `json:"kind"`
	Flags  []string   `json:"txtar_c_flags"`
	Files  []treeFile `json:"tree"`
	Detail string     `json:"detail"`
	Stderr string     `json:"stderr,omitempty"`
}

var bodies = []string{"", "hello\n", "no newline", "line1\nline2\n", "-- marker --\n", "x\n-- m --\ny\n", "-- last --", "--  --\n", "-- --\n", ">quoted?\n", "é ü\n", "\xff\xfe\n", "a\r\n", "\n", "\n\n", "-- a --\r\n", "tab\there\n", "unquote x\n",
	// bodies that get quoted (marker line) and whose own lines already begin with '>'
	"> reply\n> > older\n-- sig --\nbye\n", ">>-- inner --\n>>x\n-- outer --\n>-- inner --\n", ">\n-- m --\n", ">>>\n>-- m --\n-- n --\n",
	// bodies that get quoted and begin with an empty line, or hold empty lines next to markers
	"\n-- m --\n", "\n\nhello\n-- m --\nworld\n", "\n>x\n-- m --\n", "a\n\n-- m --\n\n"}
var pathSegs = []string{"a", "b", "sub", "deep", ".hidden", ".git", "c d", "é", "x.txt", "-- n --", "a--b"}

func genTree(r *rand.Rand) []treeFile {
	n := 1 + r.Intn(14)
	seen := map[string]bool{}
	dirs := map[string]bool{}
	var out []treeFile
	for i := 0; i < n; i++ {
		depth := 1 + r.Intn(3)
		var segs []string
		for j := 0; j < depth; j++ {
			segs = append(segs, pathSegs[r.Intn(len(pathSegs))])
		}
		p := strings.Join(segs, "/")
		// a path cannot be both file and directory
		conflict := seen[p] || dirs[p]
		for k := 1; k < len(segs); k++ {
			if seen[strings.Join(segs[:k], "/")] {
				conflict = true
			}
		}
		if conflict {
			continue
		}
		seen[p] = true
		for k := 1; k < len(segs); k++ {
			dirs[strings.Join(segs[:k], "/")] = true
		}
		out = append(out, treeFile{p, bodies[r.Intn(len(bodies))]})
	}
	return out
}

func fixNL(s string) string {
	if s == "" || strings.HasSuffix(s, "\n") {
		return s
	}
	return s + "\n"
}

func hasMarkerRef(body string) bool {
	// ground truth from the reference parser on CR-free data; with CR use the CRLF->LF image too
	b := []byte(body)
	if len(xt.Parse(b).Files) > 0 {
		return true
	}
	return len(xt.Parse(bytes.ReplaceAll(b, []byte("\r\n"), []byte("\n"))).Files) > 0
}

var nTrees, nQuoted, nSkippedMarker, nDot int64

func treeCase(r *rand.Rand, base string, idx int, bin string) {
	run.Eval(1)
	root := filepath.Join(base, fmt.Sprintf("t%d", idx))
	src := filepath.Join(root, "src")
	dst := filepath.Join(root, "dst")
	os.MkdirAll(src, 0o777)
	os.MkdirAll(dst, 0o777)
	defer os.RemoveAll(root)
	files := genTree(r)
	for _, f := range files {
		fp := filepath.Join(src, filepath.FromSlash(f.Path))
		os.MkdirAll(filepath.Dir(fp), 0o777)
		if err := os.WriteFile(fp, []byte(f.Data), 0o644); err != nil {
			panic(err)
		}
	}
	if r.Intn(4) == 0 {
		os.MkdirAll(filepath.Join(src, "emptydir"), 0o777)
	}
	if r.Intn(4) == 0 {
		os.Symlink("a", filepath.Join(src, "symlink"))
	}
	var flags []string
	all, quote := r.Intn(2) == 0, r.Intn(2) == 0
	if all {
		flags = append(flags, "-a")
	}
	if quote {
		flags = append(flags, "-quote")
	}
	fail := func(kind, detail, stderr string) {
		if limited(kind) {
			run.Count("suppressed_duplicate_reports_"+kind, 1)
			return
		}
		var ps []string
		for _, f := range files {
			ps = append(ps, f.Path)
		}
		run.Violation(fmt.Sprintf("%s flags=%v tree=%q", kind, flags, ps), kind+": "+detail, tcase{kind, flags, files, detail, stderr})
	}
	var arch, stderr bytes.Buffer
	// the tree is named by its absolute path, or - from inside it or from beside it - by a relative one
	c := exec.Command(filepath.Join(bin, "txtar-c"), append(flags, src)...)
	switch r.Intn(5) {
	case 0:
		c = exec.Command(filepath.Join(bin, "txtar-c"), append(flags, ".")...)
		c.Dir = src
	case 1:
		c = exec.Command(filepath.Join(bin, "txtar-c"), append(flags, "./")...)
		c.Dir = src
	case 2:
		c = exec.Command(filepath.Join(bin, "txtar-c"), append(flags, filepath.Base(src))...)
		c.Dir = filepath.Dir(src)
	case 3:
		c = exec.Command(filepath.Join(bin, "txtar-c"), append(flags, "./"+filepath.Base(src)+"/")...)
		c.Dir = filepath.Dir(src)
	}
	flags = append(flags, "tree named "+c.Args[len(c.Args)-1])
	c.Stdout, c.Stderr = &arch, &stderr
	if err := c.Run(); err != nil {
		fail("txtar-c-failed", fmt.Sprintf("txtar-c %v: %v", flags, err), stderr.String())
		return
	}
	var xerr bytes.Buffer
	x := exec.Command(filepath.Join(bin, "txtar-x"), "-C", dst)
	x.Stdin = bytes.NewReader(arch.Bytes())
	x.Stderr = &xerr
	if err := x.Run(); err != nil {
		fail("txtar-x-failed", fmt.Sprintf("txtar-x rejected the archive produced by txtar-c %v: %v: %s; archive=%q", flags, err, xerr.String(), arch.String()), xerr.String())
		return
	}
	atomic.AddInt64(&nTrees, 1)
	// expectation computed from the tree by the documented rules
	want := map[string]string{}
	for _, f := range files {
		dot := false
		for _, s := range strings.Split(f.Path, "/") {
			if strings.HasPrefix(s, ".") {
				dot = true
			}
		}
		if dot {
			atomic.AddInt64(&nDot, 1)
			if !all {
				continue
			}
		}
		if !utf8.ValidString(f.Data) {
			continue
		}
		body := fixNL(f.Data)
		if hasMarkerRef(body) {
			if !quote {
				atomic.AddInt64(&nSkippedMarker, 1)
				continue
			}
			atomic.AddInt64(&nQuoted, 1)
			want[f.Path] = "Q" + body
			continue
		}
		want[f.Path] = "P" + body
	}
	got := map[string]string{}
	filepath.Walk(dst, func(p string, info fs.FileInfo, err error) error {
		if err == nil && info.Mode().IsRegular() {
			rel, _ := filepath.Rel(dst, p)
			b, _ := os.ReadFile(p)
			got[filepath.ToSlash(rel)] = string(b)
		}
		return nil
	})
	// quoted files are restored the way a user of the archive has to do it: by following the
	// "unquote <name>" directives that txtar-c leaves in the archive comment
	directives := map[string]bool{}
	for _, l := range strings.Split(string(xt.Parse(arch.Bytes()).Comment), "\n") {
		if n, ok := strings.CutPrefix(l, "unquote "); ok {
			directives[n] = true
		}
	}
	for n := range directives {
		g, ok := got[n]
		if !ok {
			fail("unquote-directive-names-no-extracted-file", fmt.Sprintf("the archive comment says \"unquote %s\" but no such file was extracted; archive=%q", n, arch.String()), "")
			continue
		}
		u, err := txtar.Unquote([]byte(g))
		if err != nil {
			fail("quoted-file-not-unquotable", fmt.Sprintf("%q: extracted %q: %v", n, g, err), "")
			continue
		}
		got[n] = string(u)
	}
	var keys []string
	for k := range want {
		keys = append(keys, k)
	}
	sort.Strings(keys)
	for _, k := range keys {
		w := want[k]
		g, ok := got[k]
		if !ok {
			fail("archived-file-missing-after-extract", fmt.Sprintf("%q (body %q) should be archived with flags %v but is missing after extraction; archive=%q", k, w[1:], flags, arch.String()), stderr.String())
			continue
		}
		if w[0] == 'Q' && !directives[k] {
			fail("quoted-file-without-unquote-directive", fmt.Sprintf("%q had to be quoted, but the archive comment has no \"unquote %s\" line (directives: %v); archive=%q", k, k, directives, arch.String()), "")
			continue
		}
		if g != w[1:] {
			fail("extracted-content-differs", fmt.Sprintf("%q: extracted %q, original (with final newline) %q; archive=%q", k, g, w[1:], arch.String()), "")
		}
	}
	for k := range got {
		if _, ok := want[k]; !ok {
			fail("unexpected-file-after-extract", fmt.Sprintf("%q (content %q) appears after extraction but the documented rules exclude it (flags %v); archive=%q", k, got[k], flags, arch.String()), "")
		}
	}
	var sig []string
	for _, f := range files {
		sig = append(sig, f.Path+"="+f.Data)
	}
	run.Distinct("tree|" + strings.Join(flags, ",") + "|" + strings.Join(sig, "\x00"))
}

func main() {
	vlib.Main("C15", "exploration", 10*time.Minute, func(r *vlib.Run) {
		run = r
		r.Rule("Write: archives of 1-6 entries whose names are 1-5 segments from {a,b,.,..,empty,'c d',é,..a,a..,...,sib,dir} joined by '/', optionally absolute or of the form ../dir/..., with duplicates, against a directory with random pre-existing files and, in a quarter of the cases, a symbolic link (dangling towards outside / inside, or to an existing file) at the path of one entry; the directory sits two levels deep in a sandbox with canary files beside and above it. Concurrent extraction: 2-4 Write calls of archives naming the same files into one fresh directory at once (one creator per file). Extraction under fault: the real txtar-x under strace with every write from the k-th on failing with ENOSPC must exit non-zero or have written every file exactly. Round trip: trees of 1-14 text files (nested, dot files/dirs, marker look-alikes, no final newline, empty, invalid UTF-8, CRLF, symlink, empty dir) archived with the real txtar-c (random -a/-quote; the tree named by its absolute path, '.', './', its base name or './name/') and extracted with the real txtar-x. Non-trivial = distinct (names, pre-existing set) / distinct (tree, flags).")
		r.Assume("file names in trees contain no newline and no leading/trailing blanks (the format cannot carry those); no symlinked directories on the way to an entry inside the target directory of Write (containment is lexical)")
		base := vlib.Scratch()
		W := runtime.NumCPU()
		nw := r.Pick(6000, 300000)
		vlib.Parallel(W, W, func(w int) {
			rng := r.Rand(fmt.Sprintf("write-%d", w))
			for i := w; i < nw; i += W {
				writeCase(rng, base, i)
			}
		})
		nr := r.Pick(400, 20000)
		vlib.Parallel(W, W, func(w int) {
			rng := r.Rand(fmt.Sprintf("race-%d", w))
			for i := w; i < nr; i += W {
				raceCase(rng, base, i)
			}
		})
		r.Sample(map[string]any{"kind": "write", "entries": []string{"a/../../sib", "b/./x", "/abs", "dir/.."}, "note": "example of generated names"})
		bin := os.Getenv("VERIF_BUILD")
		nt := r.Pick(300, 8000)
		vlib.Parallel(W, W, func(w int) {
			rng := r.Rand(fmt.Sprintf("tree-%d", w))
			for i := w; i < nt; i += W {
				treeCase(rng, base, i, bin)
			}
		})
		if _, err := exec.LookPath("strace"); err == nil {
			nx := r.Pick(48, 1200)
			vlib.Parallel(W, W, func(w int) {
				rng := r.Rand(fmt.Sprintf("xfault-%d", w))
				for i := w; i < nx; i += W {
					extractFaultCase(rng, base, i, bin)
				}
			})
		}
		r.Set("extractions_under_injected_write_failure", atomic.LoadInt64(&nExtractFaults))
		r.Set("of_which_reported_failure", atomic.LoadInt64(&nExtractFaultsReported))
		r.Sample(map[string]any{"kind": "tree", "files": genTree(r.Rand("sample"))})
		r.Set("write_returned_error", atomic.LoadInt64(&nErr))
		r.Set("write_cases_with_no_reason_to_fail", atomic.LoadInt64(&nHarmless))
		r.Set("write_succeeded", atomic.LoadInt64(&nOK))
		r.Set("archives_with_escaping_name", atomic.LoadInt64(&nEscapeNames))
		r.Set("write_cases_with_a_symlink_at_an_entry_path", atomic.LoadInt64(&nSymlinked))
		r.Set("concurrent_extraction_rounds", atomic.LoadInt64(&nRaces))
		r.Set("concurrent_extractions_that_returned_nil", atomic.LoadInt64(&nRaceWinners))
		r.Set("trees_round_tripped", atomic.LoadInt64(&nTrees))
		r.Set("files_quoted", atomic.LoadInt64(&nQuoted))
		r.Set("files_skipped_for_marker", atomic.LoadInt64(&nSkippedMarker))
		r.Set("dot_files_seen", atomic.LoadInt64(&nDot))
		if atomic.LoadInt64(&nOK) < 50 || atomic.LoadInt64(&nTrees) < 50 {
			r.Inconclusive("too few successful Write calls / round trips observed")
		}
	})
}
