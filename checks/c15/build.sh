# builds the real txtar-c / txtar-x commands from the tree under test
REPO="${VERIF_REPO:-/repo}"
(cd "$REPO" && go build -o "$B/txtar-c" ./cmd/txtar-c && go build -o "$B/txtar-x" ./cmd/txtar-x) || return 1
