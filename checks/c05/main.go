// C05: the cache returns exactly what was stored, or not-found - never other bytes.
// Oracle: shadow model of the store (per id: latest payload + whether its
// index entry / output file are intact), self-consistency gates on every
// lookup (sha256 / size / not-found error kind / no panic) and payload
// ownership (bytes returned for an id were once Put under that id).
package main

import (
	"bytes"
	"crypto/sha256"
	"encoding/hex"
	"fmt"
	"io"
	"math/rand"
	"os"
	"path/filepath"
	"runtime"
	"strings"
	"sync"
	"sync/atomic"
	"time"

	"github.com/rogpeppe/go-internal/cache"

	"verif/vlib"
)

type hcase struct {
	Kind    string   `json:"kind"`
	History int      `json:"history_index"`
	Ops     []string `json:"ops"`
	Detail  string   `json:"detail"`
}

var (
	run      *vlib.Run
	kindMu   sync.Mutex
	kindSeen = map[string]int{}
)

func limited(kind string) bool {
	kindMu.Lock()
	defer kindMu.Unlock()
	kindSeen[kind]++
	return kindSeen[kind] > 4
}

const nIDs = 6

type world struct {
	dir   string
	c     *cache.Cache
	ids   [nIDs]cache.ActionID
	cur   [nIDs][]byte            // latest successfully stored payload (nil = never)
	has   [nIDs]bool              // a Put succeeded at some time and index not known-absent
	idxOK [nIDs]bool              // index entry untouched since the last successful Put
	hist  [nIDs]map[[32]byte]bool // hashes of every payload ever Put under this id
	data  map[[32]byte]bool       // output file intact?
	obstr map[string]bool         // paths currently replaced by a directory
	files map[string]bool         // every path we may have created (for cleanup)
	ops   []string
	hidx  int
	rng   *rand.Rand
}

func (w *world) logf(f string, a ...any) { w.ops = append(w.ops, fmt.Sprintf(f, a...)) }

func (w *world) fail(kind, detail string) {
	if limited(kind) {
		run.Count("suppressed_duplicate_reports_"+kind, 1)
		return
	}
	ops := w.ops
	if len(ops) > 60 {
		ops = ops[len(ops)-60:]
	}
	run.Violation(fmt.Sprintf("%s history=%d step=%d seed=%d", kind, w.hidx, len(w.ops), run.Seed),
		fmt.Sprintf("%s: %s (history %d, after %d steps; last op: %s)", kind, detail, w.hidx, len(w.ops), w.ops[len(w.ops)-1]),
		hcase{kind, w.hidx, append([]string{}, ops...), detail})
}

func (w *world) idxPath(i int) string {
	id := w.ids[i]
	return filepath.Join(w.dir, fmt.Sprintf("%02x", id[0]), fmt.Sprintf("%x-a", id[:]))
}

func (w *world) outPath(h [32]byte) string {
	return filepath.Join(w.dir, fmt.Sprintf("%02x", h[0]), fmt.Sprintf("%x-d", h[:]))
}

var sizes = []int{0, 1, 17, 300, 32767, 32768, 32769, 100 << 10}

func (w *world) payload(i int) []byte {
	if w.rng.Intn(8) == 0 {
		// content shared between ids
		return []byte(fmt.Sprintf("shared-%d\n", w.rng.Intn(3)))
	}
	n := sizes[w.rng.Intn(len(sizes))]
	if n == 0 {
		return []byte{}
	}
	b := make([]byte, n)
	hdr := fmt.Sprintf("id%d|h%d|s%d|", i, w.hidx, len(w.ops))
	copy(b, hdr)
	for j := len(hdr); j < n; j++ {
		b[j] = byte(w.rng.Intn(256))
	}
	if n < len(hdr) {
		b[0] = byte(w.rng.Intn(256))
	}
	return b
}

func isNotFound(err error) bool {
	return err != nil && strings.HasPrefix(err.Error(), "cache entry not found")
}

func (w *world) intact(i int) bool {
	return w.has[i] && w.idxOK[i] && w.data[sha256.Sum256(w.cur[i])]
}

func (w *world) put(i int, viaBytes bool) {
	p := w.payload(i)
	h := sha256.Sum256(p)
	w.logf("Put(id%d, %d bytes %x.., bytes=%v)", i, len(p), h[:4], viaBytes)
	var err error
	var out cache.OutputID
	var size int64
	pv, st := vlib.Try(func() {
		if viaBytes {
			err = w.c.PutBytes(w.ids[i], p)
			out, size = h, int64(len(p))
		} else {
			// the reader is handed over wherever its previous user left it: fresh, at the end
			// (a file just written), or somewhere inside (a header was peeked) - Put stores all of it
			rd := bytes.NewReader(p)
			switch w.rng.Intn(4) {
			case 0:
				rd.Seek(0, io.SeekEnd)
				run.Count("puts_with_reader_at_eof", 1)
			case 1:
				if len(p) > 0 {
					rd.Seek(int64(w.rng.Intn(len(p)+1)), io.SeekStart)
					run.Count("puts_with_reader_partly_read", 1)
				}
			}
			out, size, err = w.c.Put(w.ids[i], rd)
		}
	})
	w.files[w.idxPath(i)] = true
	w.files[w.outPath(h)] = true
	if pv != nil {
		w.fail("put-panic", fmt.Sprintf("panic: %v at %s", pv, vlib.RepoFrame(st)))
		return
	}
	if err != nil {
		if w.obstr[w.idxPath(i)] || w.obstr[w.outPath(h)] {
			run.Count("put_errors_due_to_directory_obstruction", 1)
			w.idxOK[i] = false
			w.data[h] = false
			return
		}
		w.fail("put-failed", fmt.Sprintf("Put on a writable cache returned %v", err))
		w.idxOK[i] = false
		return
	}
	if out != cache.OutputID(h) || size != int64(len(p)) {
		w.fail("put-reports-wrong-output", fmt.Sprintf("Put returned output %x size %d for content with sha256 %x size %d", out[:6], size, h[:6], len(p)))
	}
	w.cur[i] = p
	w.has[i] = true
	w.idxOK[i] = true
	w.hist[i][h] = true
	w.data[h] = true
	run.Count("puts", 1)
}

func (w *world) lookup(i int, kind int) {
	want := w.intact(i)
	switch kind {
	case 0: // GetBytes
		w.logf("GetBytes(id%d) [model intact=%v]", i, want)
		var data []byte
		var e cache.Entry
		var err error
		if pv, st := vlib.Try(func() { data, e, err = w.c.GetBytes(w.ids[i]) }); pv != nil {
			w.fail("lookup-panic", fmt.Sprintf("GetBytes panic: %v at %s", pv, vlib.RepoFrame(st)))
			return
		}
		run.Count("lookups_getbytes", 1)
		if err != nil {
			if !isNotFound(err) {
				w.fail("error-is-not-notfound", fmt.Sprintf("GetBytes returned error %q which is not a not-found error", err))
			}
			if want {
				w.fail("intact-entry-missed", fmt.Sprintf("GetBytes(id%d) = %v although Put succeeded and nothing was damaged since", i, err))
			}
			run.Count("misses", 1)
			return
		}
		run.Count("hits", 1)
		sum := sha256.Sum256(data)
		if sum != [32]byte(e.OutputID) {
			w.fail("getbytes-checksum-gate", fmt.Sprintf("GetBytes(id%d) returned %d bytes with sha256 %x but reports OutputID %x", i, len(data), sum[:6], e.OutputID[:6]))
		}
		if !w.hist[i][sum] {
			w.fail("foreign-bytes", fmt.Sprintf("GetBytes(id%d) returned %d bytes (sha256 %x, head %s) that were never stored under this id", i, len(data), sum[:6], vlib.Q(head(data))))
		}
		if want && !bytes.Equal(data, w.cur[i]) {
			w.fail("stale-or-wrong-bytes", fmt.Sprintf("GetBytes(id%d) returned %d bytes (head %s), latest Put stored %d bytes (head %s)", i, len(data), vlib.Q(head(data)), len(w.cur[i]), vlib.Q(head(w.cur[i]))))
		}
	case 1: // GetFile
		w.logf("GetFile(id%d) [model intact=%v]", i, want)
		var file string
		var e cache.Entry
		var err error
		if pv, st := vlib.Try(func() { file, e, err = w.c.GetFile(w.ids[i]) }); pv != nil {
			w.fail("lookup-panic", fmt.Sprintf("GetFile panic: %v at %s", pv, vlib.RepoFrame(st)))
			return
		}
		run.Count("lookups_getfile", 1)
		if err != nil {
			if !isNotFound(err) {
				w.fail("error-is-not-notfound", fmt.Sprintf("GetFile returned error %q which is not a not-found error", err))
			}
			if want {
				w.fail("intact-entry-missed", fmt.Sprintf("GetFile(id%d) = %v although Put succeeded and nothing was damaged since", i, err))
			}
			run.Count("misses", 1)
			return
		}
		run.Count("hits", 1)
		st, serr := os.Stat(file)
		if serr != nil || st.Size() != e.Size {
			w.fail("getfile-size-gate", fmt.Sprintf("GetFile(id%d) names %s (stat: %v, size %d) but reports size %d", i, filepath.Base(file), serr, sizeOf(st), e.Size))
		}
		if want {
			b, _ := os.ReadFile(file)
			if !bytes.Equal(b, w.cur[i]) {
				w.fail("getfile-wrong-content", fmt.Sprintf("GetFile(id%d) names a file holding %d bytes (head %s), latest Put stored %d bytes (head %s)", i, len(b), vlib.Q(head(b)), len(w.cur[i]), vlib.Q(head(w.cur[i]))))
			}
		}
	case 2: // Get
		w.logf("Get(id%d) [model intact=%v]", i, want)
		var e cache.Entry
		var err error
		if pv, st := vlib.Try(func() { e, err = w.c.Get(w.ids[i]) }); pv != nil {
			w.fail("lookup-panic", fmt.Sprintf("Get panic: %v at %s", pv, vlib.RepoFrame(st)))
			return
		}
		run.Count("lookups_get", 1)
		if err != nil {
			if !isNotFound(err) {
				w.fail("error-is-not-notfound", fmt.Sprintf("Get returned error %q which is not a not-found error", err))
			}
			if w.has[i] && w.idxOK[i] {
				w.fail("intact-entry-missed", fmt.Sprintf("Get(id%d) = %v although its index entry was written and not damaged", i, err))
			}
			return
		}
		if w.has[i] && w.idxOK[i] {
			h := sha256.Sum256(w.cur[i])
			if [32]byte(e.OutputID) != h || e.Size != int64(len(w.cur[i])) {
				w.fail("get-wrong-entry", fmt.Sprintf("Get(id%d) reports output %x size %d, latest Put stored %x size %d", i, e.OutputID[:6], e.Size, h[:6], len(w.cur[i])))
			}
		}
	default: // OutputFile
		var h [32]byte
		if w.cur[i] != nil {
			h = sha256.Sum256(w.cur[i])
		}
		w.logf("OutputFile(%x..)", h[:4])
		var name string
		if pv, st := vlib.Try(func() { name = w.c.OutputFile(cache.OutputID(h)) }); pv != nil {
			w.fail("lookup-panic", fmt.Sprintf("OutputFile panic: %v at %s", pv, vlib.RepoFrame(st)))
			return
		}
		if name != w.outPath(h) {
			w.fail("outputfile-name", fmt.Sprintf("OutputFile = %s, expected %s", name, w.outPath(h)))
		}
	}
}

func sizeOf(st os.FileInfo) int64 {
	if st == nil {
		return -1
	}
	return st.Size()
}

func head(b []byte) []byte {
	if len(b) > 24 {
		return b[:24]
	}
	return b
}

// damageFile applies one kind of on-disk damage to path.
func (w *world) damageFile(path string, what string) {
	w.files[path] = true
	b, err := os.ReadFile(path)
	exists := err == nil
	switch w.rng.Intn(7) {
	case 0:
		if exists && len(b) > 0 {
			k := w.rng.Intn(len(b))
			w.logf("damage %s: truncate to %d", what, k)
			os.Truncate(path, int64(k))
			return
		}
		fallthrough
	case 1:
		extra := make([]byte, 1+w.rng.Intn(40))
		w.rng.Read(extra)
		w.logf("damage %s: extend by %d bytes", what, len(extra))
		if w.obstr[path] {
			return
		}
		f, err := os.OpenFile(path, os.O_WRONLY|os.O_CREATE|os.O_APPEND, 0o666)
		if err == nil {
			f.Write(extra)
			f.Close()
		}
	case 2:
		if exists && len(b) > 0 {
			k := w.rng.Intn(len(b))
			b[k] ^= byte(1 + w.rng.Intn(255))
			w.logf("damage %s: flip byte %d", what, k)
			os.WriteFile(path, b, 0o666)
			return
		}
		fallthrough
	case 3:
		w.logf("damage %s: delete", what)
		os.RemoveAll(path)
		delete(w.obstr, path)
	case 4:
		// replace with the corresponding file of another id / output
		var other string
		if strings.HasSuffix(path, "-a") {
			other = w.idxPath(w.rng.Intn(nIDs))
		} else {
			for h := range w.data {
				other = w.outPath(h)
				break
			}
		}
		ob, err := os.ReadFile(other)
		if err != nil || other == path || w.obstr[path] {
			w.logf("damage %s: empty file", what)
			if !w.obstr[path] {
				os.WriteFile(path, nil, 0o666)
			}
			return
		}
		w.logf("damage %s: replace with contents of %s", what, filepath.Base(other))
		os.WriteFile(path, ob, 0o666)
	case 5:
		w.logf("damage %s: replace with a directory", what)
		os.RemoveAll(path)
		os.Mkdir(path, 0o777)
		w.obstr[path] = true
	default:
		if exists && len(b) > 0 {
			w.logf("damage %s: overwrite with random bytes of the same length", what)
			w.rng.Read(b)
			os.WriteFile(path, b, 0o666)
			return
		}
		w.logf("damage %s: write 175 random bytes", what)
		if !w.obstr[path] {
			nb := make([]byte, 175)
			w.rng.Read(nb)
			os.WriteFile(path, nb, 0o666)
		}
	}
}

// indexMutation writes a structured mutation of a valid index entry (or random bytes).
func (w *world) indexMutation(i int) {
	path := w.idxPath(i)
	w.files[path] = true
	if w.obstr[path] {
		os.RemoveAll(path)
		delete(w.obstr, path)
	}
	id := w.ids[i]
	var out [32]byte
	w.rng.Read(out[:]) // never the hash of an existing output
	size := int64(w.rng.Intn(100000))
	tm := time.Now().UnixNano()
	valid := fmt.Sprintf("v1 %x %x %20d %20d\n", id[:], out[:], size, tm)
	var e string
	// 20-byte numeric fields that keep the entry's length and separators intact
	hostileNum := []string{
		strings.Repeat(" ", 20), strings.Repeat(" ", 19) + "-", strings.Repeat(" ", 19) + "+", "5" + strings.Repeat(" ", 19),
		strings.Repeat(" ", 16) + "0x10", strings.Repeat(" ", 17) + "1 2", strings.Repeat("0", 20), strings.Repeat(" ", 18) + "-0",
		strings.Repeat(" ", 17) + "1e3", strings.Repeat("\x00", 20), strings.Repeat(" ", 19) + "\n", strings.Repeat("9", 20),
		strings.Repeat(" ", 1) + "9223372036854775808", strings.Repeat("-", 20), "\t" + strings.Repeat(" ", 18) + "7",
	}
	m := w.rng.Intn(20)
	if m == 19 && w.cur[i] == nil {
		m = 14
	}
	switch m {
	case 19: // well formed, names the output this id really has - only the size field disagrees with it
		h := sha256.Sum256(w.cur[i])
		n := int64(len(w.cur[i]))
		sz := []int64{n + 1, n - 1, 0, n * 10, 1 << 40, 1<<63 - 1, n + 4096}[w.rng.Intn(7)]
		if sz < 0 {
			sz = 1
		}
		e = fmt.Sprintf("v1 %x %x %20d %20d\n", id[:], h[:], sz, tm)
	case 0:
		e = valid[:w.rng.Intn(len(valid))]
	case 1:
		e = valid + "x"
	case 2:
		e = valid + valid
	case 3:
		e = "v2" + valid[2:]
	case 4: // non-hex in id
		e = valid[:3] + "zz" + valid[5:]
	case 5: // non-hex in out
		e = valid[:3+64+1] + "gg" + valid[3+64+1+2:]
	case 6: // negative size
		e = fmt.Sprintf("v1 %x %x %20d %20d\n", id[:], out[:], -size-1, tm)
	case 7: // overflow size
		e = fmt.Sprintf("v1 %x %x %20s %20d\n", id[:], out[:], "99999999999999999999", tm)
	case 8: // missing separator
		e = strings.Replace(valid, " ", "_", 1+w.rng.Intn(4))
	case 9: // id of another action
		o := w.ids[(i+1)%nIDs]
		e = fmt.Sprintf("v1 %x %x %20d %20d\n", o[:], out[:], size, tm)
	case 10: // negative time
		e = fmt.Sprintf("v1 %x %x %20d %20d\n", id[:], out[:], size, -tm)
	case 11: // no trailing newline
		e = valid[:len(valid)-1] + " "
	case 12: // size with embedded junk
		e = fmt.Sprintf("v1 %x %x %20s %20d\n", id[:], out[:], "12x4", tm)
	case 13: // upper-case hex / plus sign
		e = fmt.Sprintf("v1 %X %x %20s %20d\n", id[:], out[:], "+5", tm)
	case 14: // valid entry pointing to an output that does not exist
		e = valid
	case 15: // hostile size field, everything else well formed
		e = fmt.Sprintf("v1 %x %x %s %20d\n", id[:], out[:], hostileNum[w.rng.Intn(len(hostileNum))], tm)
	case 16: // hostile time field
		e = fmt.Sprintf("v1 %x %x %20d %s\n", id[:], out[:], size, hostileNum[w.rng.Intn(len(hostileNum))])
	case 17: // a run of the valid entry overwritten in place (length kept)
		b := []byte(valid)
		a := w.rng.Intn(len(b))
		n := 1 + w.rng.Intn(24)
		fill := []byte{' ', '0', '-', 0, '\n', 'f'}[w.rng.Intn(6)]
		for k := a; k < a+n && k < len(b); k++ {
			b[k] = fill
		}
		e = string(b)
	default:
		b := make([]byte, w.rng.Intn(400))
		w.rng.Read(b)
		e = string(b)
	}
	w.logf("index entry of id%d := mutation %d (%d bytes)", i, m, len(e))
	os.WriteFile(path, []byte(e), 0o666)
	w.idxOK[i] = false
	run.Count("index_mutations", 1)
}

func (w *world) step() {
	i := w.rng.Intn(nIDs)
	switch r := w.rng.Intn(20); {
	case r < 5:
		w.put(i, w.rng.Intn(2) == 0)
	case r < 12:
		w.lookup(i, w.rng.Intn(4))
	case r < 14:
		// damage index of i
		w.damageFile(w.idxPath(i), fmt.Sprintf("index(id%d)", i))
		w.idxOK[i] = false
		run.Count("damage_actions", 1)
		w.lookup(i, w.rng.Intn(3))
	case r < 17:
		// damage output of i's current payload (affects every id sharing it)
		if w.cur[i] == nil {
			return
		}
		h := sha256.Sum256(w.cur[i])
		w.damageFile(w.outPath(h), fmt.Sprintf("output(%x.. of id%d)", h[:4], i))
		w.data[h] = false
		run.Count("damage_actions", 1)
		w.lookup(i, w.rng.Intn(2))
	case r < 19:
		w.indexMutation(i)
		w.lookup(i, w.rng.Intn(3))
	default:
		// repair: Put of the same content must make GetBytes return it again
		if w.cur[i] == nil {
			return
		}
		p := w.cur[i]
		h := sha256.Sum256(p)
		// clear directory obstructions first (outside the statement's damage classes)
		for _, pth := range []string{w.idxPath(i), w.outPath(h)} {
			if w.obstr[pth] {
				os.RemoveAll(pth)
				delete(w.obstr, pth)
			}
		}
		w.logf("repair: Put(id%d, same %d bytes %x..)", i, len(p), h[:4])
		var err error
		if pv, st := vlib.Try(func() { err = w.c.PutBytes(w.ids[i], p) }); pv != nil {
			w.fail("put-panic", fmt.Sprintf("panic: %v at %s", pv, vlib.RepoFrame(st)))
			return
		}
		if err != nil {
			w.fail("put-failed", fmt.Sprintf("repairing Put returned %v", err))
			return
		}
		w.idxOK[i], w.has[i], w.data[h] = true, true, true
		run.Count("repairs", 1)
		data, _, gerr := w.c.GetBytes(w.ids[i])
		if gerr != nil || !bytes.Equal(data, p) {
			w.fail("put-does-not-repair", fmt.Sprintf("after Put of the same content GetBytes(id%d) = (%d bytes, %v), want the %d bytes just stored", i, len(data), gerr, len(p)))
		}
	}
}

func runHistory(dir string, c *cache.Cache, hidx int, seed int64) {
	w := &world{dir: dir, c: c, hidx: hidx, rng: rand.New(rand.NewSource(seed)), data: map[[32]byte]bool{}, obstr: map[string]bool{}, files: map[string]bool{}}
	for i := range w.ids {
		w.ids[i] = cache.ActionID(sha256.Sum256([]byte(fmt.Sprintf("action-%d-%d", hidx%7, i))))
		w.hist[i] = map[[32]byte]bool{}
	}
	n := 30 + w.rng.Intn(170)
	for s := 0; s < n; s++ {
		w.step()
	}
	run.Eval(1)
	run.Distinct(fmt.Sprintf("%d|%d", seed, n))
	if hidx < 2 {
		ops := w.ops
		if len(ops) > 25 {
			ops = ops[:25]
		}
		run.Sample(map[string]any{"kind": "history", "index": hidx, "first_ops": ops, "steps": len(w.ops)})
	}
	for p := range w.files {
		os.RemoveAll(p)
	}
}

func main() {
	vlib.Main("C05", "exploration", 10*time.Minute, func(r *vlib.Run) {
		run = r
		r.Rule("histories of 30-200 steps over 6 action ids and 8 size classes (0,1,17,300,32KiB-1,32KiB,32KiB+1,100KiB; some content shared between ids): Put/PutBytes, Get/GetBytes/GetFile/OutputFile, interleaved with damage to index and output files (truncate, extend, flip, delete, replace with another entry's file, replace with a directory, same-length garbage), 19 structured index-entry mutations (incl. an otherwise valid entry whose size field disagrees with the intact output it names) (every field, incl. hostile 20-byte numeric fields such as all blanks / sign only / digits then blanks, and in-place overwritten runs) and random bytes, and repairing Puts. Every history is distinct (own PRNG stream); non-trivial = history executed with at least 30 steps.")
		r.Assume("crafted index entries never point to an existing output of another id (so 'bytes never stored under this id' is a sound ownership check); directory obstructions are removed before a repairing Put")
		W := runtime.NumCPU()
		nh := r.Pick(600, 30000)
		only := -1
		if p := vlib.ReplayPath(); p != "" {
			var c hcase
			if err := vlib.LoadReplayCase(p, &c); err == nil {
				only = c.History
			}
		}
		base := vlib.Scratch()
		var done int64
		vlib.Parallel(W, W, func(wk int) {
			dir := filepath.Join(base, fmt.Sprintf("cache%d%s", wk, []string{"", "[ab]", " %s", "?*"}[wk%4])) // a directory's own name is just a name
			os.MkdirAll(dir, 0o777)
			c, err := cache.Open(dir)
			if err != nil {
				r.Inconclusive("cache.Open: " + err.Error())
				return
			}
			for h := wk; h < nh; h += W {
				if only >= 0 && h != only {
					continue
				}
				runHistory(dir, c, h, r.SubSeed(fmt.Sprintf("hist-%d", h)))
				atomic.AddInt64(&done, 1)
			}
		})
		if only >= 0 {
			r.DistinctBulk(2)
		}
		r.Set("histories", atomic.LoadInt64(&done))
		if r.Counter("hits") < 100 || r.Counter("misses") < 100 || r.Counter("repairs") < 10 {
			if only < 0 {
				r.Inconclusive("too few hits / misses / repairs observed")
			}
		}
		_ = hex.EncodeToString
	})
}
