// C12: an interrupted or failing Put leaves the cache consistent.
// Oracle: after every injected stop / fault the cache directory is opened
// afresh and every id of the scenario is looked up; the gates of the statement
// (sha256 = OutputID for GetBytes; size and content hash for GetFile from an
// undamaged start; unrelated entries still readable) are evaluated.
// Fault sources: strace SIGKILL / errno injection at every syscall of Put
// (enumerated by a dry run), RLIMIT_FSIZE short writes, hostile ReadSeekers,
// SIGKILL of a looping writer at random times.
package main

import (
	"bytes"
	"crypto/sha256"
	"encoding/hex"
	"errors"
	"fmt"
	"io"
	"math/rand"
	"os"
	"os/exec"
	"path/filepath"
	"runtime"
	"runtime/debug"
	"sort"
	"strings"
	"sync"
	"sync/atomic"
	"syscall"
	"time"

	"github.com/rogpeppe/go-internal/cache"

	"verif/gen/payload"
	"verif/vlib"
)

type fcase struct {
	Kind     string   `json:"kind"`
	Scenario string   `json:"scenario"`
	Size     int      `json:"size"`
	Fault    string   `json:"fault"`
	Region   []string `json:"put_syscalls_of_dry_run,omitempty"`
	Trace    []string `json:"injected_run_trace_tail,omitempty"`
	Detail   string   `json:"detail"`
}

var (
	run      *vlib.Run
	kindMu   sync.Mutex
	kindSeen = map[string]int{}
	childBin string
)

func limited(kind string) bool {
	kindMu.Lock()
	defer kindMu.Unlock()
	kindSeen[kind]++
	return kindSeen[kind] > 4
}

func aid(name string) cache.ActionID { return cache.ActionID(sha256.Sum256([]byte(name))) }

type env struct {
	dir        string
	scenario   string
	size       int
	seed       int64 // payload seed of the Put under test
	target     cache.ActionID
	oldTarget  []byte                    // previous content of target (overwrite), nil if none
	unrelated  map[cache.ActionID][]byte // must stay readable with exactly these bytes
	gatesOnly  []cache.ActionID          // further ids on which the gates are evaluated
	predamaged bool
	srcfile    string
}

func (e *env) newPayload() []byte { return payload.Make("c12", e.seed, e.size) }

func outPath(dir string, h [32]byte) string {
	return filepath.Join(dir, fmt.Sprintf("%02x", h[0]), fmt.Sprintf("%x-d", h[:]))
}

var scenarios = []string{"new", "overwrite", "restore-same", "stale-index", "predamaged-wrongbytes", "predamaged-shorter", "predamaged-longer"}

func setup(base string, n int64, scenario string, size int, seed int64, srcfile bool) (*env, error) {
	dir := filepath.Join(base, fmt.Sprintf("c%d", n))
	if err := os.MkdirAll(dir, 0o777); err != nil {
		return nil, err
	}
	c, err := cache.Open(dir)
	if err != nil {
		return nil, err
	}
	e := &env{dir: dir, scenario: scenario, size: size, seed: seed, target: aid("target"), unrelated: map[cache.ActionID][]byte{}}
	p := e.newPayload()
	h := sha256.Sum256(p)
	// unrelated entries, present in every scenario
	u1, u2 := payload.Make("unrelated", 1, 777), payload.Make("unrelated", 2, 40000)
	for id, b := range map[cache.ActionID][]byte{aid("u1"): u1, aid("u2"): u2} {
		if err := c.PutBytes(id, b); err != nil {
			return nil, err
		}
		e.unrelated[id] = b
	}
	switch scenario {
	case "new":
	case "overwrite":
		old := payload.Make("old", seed, []int{size, size + 1, 10, 50000}[seed%4])
		if err := c.PutBytes(e.target, old); err != nil {
			return nil, err
		}
		e.oldTarget = old
	case "restore-same":
		if err := c.PutBytes(e.target, p); err != nil {
			return nil, err
		}
		e.oldTarget = p
		if err := c.PutBytes(aid("sharing"), p); err != nil {
			return nil, err
		}
		e.unrelated[aid("sharing")] = p // shares the target's output file
	case "repaired-same-size":
		// an output that was damaged at its full size and has since been repaired by a complete Put of
		// the same content - all in this process, which has therefore seen the file in both states
		if err := c.PutBytes(aid("victim"), p); err != nil {
			return nil, err
		}
		if len(p) > 0 {
			bad := append([]byte{}, p...)
			bad[len(bad)/2] ^= 0x41
			os.WriteFile(outPath(dir, h), bad, 0o666)
		}
		if err := c.PutBytes(aid("repairer"), p); err != nil {
			return nil, err
		}
		e.unrelated[aid("victim")] = p
		e.unrelated[aid("repairer")] = p
	case "stale-index":
		// an index entry that outlived its (trimmed) output file: a legitimate cache state
		if err := c.PutBytes(aid("stale"), p); err != nil {
			return nil, err
		}
		os.Remove(outPath(dir, h))
		e.gatesOnly = append(e.gatesOnly, aid("stale"))
	case "predamaged-wrongbytes", "predamaged-shorter", "predamaged-longer":
		if err := c.PutBytes(aid("victim"), p); err != nil {
			return nil, err
		}
		var bad []byte
		switch scenario {
		case "predamaged-wrongbytes":
			bad = payload.Make("garbage", seed, size)
		case "predamaged-shorter":
			bad = payload.Make("garbage", seed, size/2)
		default:
			bad = payload.Make("garbage", seed, size+1000)
		}
		os.WriteFile(outPath(dir, h), bad, 0o666)
		e.predamaged = true
		e.gatesOnly = append(e.gatesOnly, aid("victim"))
	}
	if srcfile {
		e.srcfile = filepath.Join(dir, "source.bin")
		if err := os.WriteFile(e.srcfile, p, 0o666); err != nil {
			return nil, err
		}
	}
	return e, nil
}

func (e *env) childArgs(extra ...string) []string {
	a := []string{childBin, "put", e.dir, hex.EncodeToString(e.target[:]), fmt.Sprint(e.seed), fmt.Sprint(e.size)}
	if e.srcfile != "" {
		a = append(a, "srcfile="+e.srcfile)
	}
	return append(a, extra...)
}

var nVerified, nPutOK, nPutErr, nKilled, nTargetReadable, nTargetMissing int64

// verify evaluates the statement's gates on a cache directory after a fault.
// putOK: Put is known to have returned nil (then the target must be readable).
func verify(e *env, fault string, putOK bool, report func(kind, detail string)) {
	atomic.AddInt64(&nVerified, 1)
	c, err := cache.Open(e.dir)
	if err != nil {
		report("cache-unopenable", err.Error())
		return
	}
	gates := func(name string, id cache.ActionID, fullGates bool) (data []byte, ok bool) {
		var ent cache.Entry
		var gerr error
		if pv, st := vlib.Try(func() { data, ent, gerr = c.GetBytes(id) }); pv != nil {
			report("lookup-panic", fmt.Sprintf("GetBytes(%s): %v at %s", name, pv, vlib.RepoFrame(st)))
			return nil, false
		}
		if gerr == nil {
			if sum := sha256.Sum256(data); sum != [32]byte(ent.OutputID) {
				report("getbytes-returns-bytes-with-wrong-hash", fmt.Sprintf("GetBytes(%s) returned %d bytes with sha256 %x, reported OutputID %x", name, len(data), sum[:6], ent.OutputID[:6]))
			}
			ok = true
		} else if !strings.HasPrefix(gerr.Error(), "cache entry not found") {
			report("lookup-error-not-notfound", fmt.Sprintf("GetBytes(%s): %v", name, gerr))
		}
		if fullGates {
			var file string
			var fe cache.Entry
			var ferr error
			if pv, st := vlib.Try(func() { file, fe, ferr = c.GetFile(id) }); pv != nil {
				report("lookup-panic", fmt.Sprintf("GetFile(%s): %v at %s", name, pv, vlib.RepoFrame(st)))
				return data, ok
			}
			if ferr == nil {
				b, rerr := os.ReadFile(file)
				if rerr != nil || int64(len(b)) != fe.Size {
					report("getfile-names-file-of-wrong-size", fmt.Sprintf("GetFile(%s) reports size %d but the file holds %d bytes (%v)", name, fe.Size, len(b), rerr))
				} else if sum := sha256.Sum256(b); sum != [32]byte(fe.OutputID) {
					report("getfile-names-file-with-wrong-content", fmt.Sprintf("GetFile(%s) names a file of the reported size %d whose sha256 is %x, reported OutputID %x (head %s)", name, fe.Size, sum[:6], fe.OutputID[:6], vlib.Q(head(b))))
				}
			}
		}
		return data, ok
	}
	p := e.newPayload()
	data, ok := gates("target", e.target, !e.predamaged)
	if ok {
		atomic.AddInt64(&nTargetReadable, 1)
		if !bytes.Equal(data, p) && !(e.oldTarget != nil && bytes.Equal(data, e.oldTarget)) {
			report("target-returns-bytes-never-stored", fmt.Sprintf("GetBytes(target) returned %d bytes (head %s) that are neither the old nor the new content", len(data), vlib.Q(head(data))))
		}
	} else {
		atomic.AddInt64(&nTargetMissing, 1)
	}
	// (C05's guarantee, evaluated here only from an undamaged start: a Put that
	// reports success despite the injected fault must have stored the entry)
	if putOK && !e.predamaged && (!ok || !bytes.Equal(data, p)) {
		report("put-succeeded-but-not-readable", fmt.Sprintf("Put returned nil but GetBytes(target) = (%d bytes, readable=%v)", len(data), ok))
	}
	var names []string
	byName := map[string]cache.ActionID{}
	for _, n := range []string{"u1", "u2", "sharing", "victim", "repairer"} {
		if _, has := e.unrelated[aid(n)]; has {
			names = append(names, n)
			byName[n] = aid(n)
		}
	}
	sort.Strings(names)
	for _, n := range names {
		want := e.unrelated[byName[n]]
		d, ok := gates(n, byName[n], !e.predamaged)
		if !ok || !bytes.Equal(d, want) {
			report("unrelated-entry-unreadable", fmt.Sprintf("entry %q was readable before the failed Put; now GetBytes = (%d bytes, readable=%v), want its %d bytes", n, len(d), ok, len(want)))
		}
	}
	for _, id := range e.gatesOnly {
		gates("other", id, !e.predamaged)
	}
}

func head(b []byte) []byte {
	if len(b) > 24 {
		return b[:24]
	}
	return b
}

var errnoFor = map[string][]string{
	"newfstatat": {"EIO", "EACCES"},
	"openat":     {"EACCES", "ENOSPC", "EMFILE"},
	"write":      {"ENOSPC", "EIO"},
	"read":       {"EIO"},
	"lseek":      {"ESPIPE"},
	"ftruncate":  {"EIO"},
	"close":      {"EIO"},
	"utimensat":  {"EPERM"},
	"fstat":      {"EIO"},
}

var caseCounter int64
var landing sync.Map // "scenario/size/syscall/kind" -> count

// enumerate runs the dry run for one configuration and then one injected run per (syscall, fault).
func enumerate(base string, scenario string, size int, seed int64, srcfile bool, stride int, W int, extra ...string) {
	cfg := fmt.Sprintf("%s/size=%d/srcfile=%v", scenario, size, srcfile)
	// extra: further arguments for the child, e.g. "flip=N" (the source delivers a different byte
	// at offset N on its second pass, so that Put fails by itself at its own hash re-check)
	wantDry, killsOnly := "PUTOK", false
	if len(extra) > 0 {
		cfg += "/" + strings.Join(extra, ",")
		wantDry, killsOnly = "PUTERR", true
	}
	e, err := setup(base, atomic.AddInt64(&caseCounter, 1), scenario, size, seed, srcfile)
	if err != nil {
		run.Inconclusive("setup: " + err.Error())
		return
	}
	dry, err := vlib.RunStrace(filepath.Join(e.dir, "strace.log"), "", nil, e.childArgs(extra...)...)
	if err != nil || dry.Begin < 0 || dry.End < 0 || !strings.HasPrefix(dry.Stdout, wantDry) {
		run.Inconclusive(fmt.Sprintf("dry run of %s failed: %v %q", cfg, err, dryOut(dry)))
		os.RemoveAll(e.dir)
		return
	}
	verify(e, "none", wantDry == "PUTOK", func(kind, detail string) {
		if !limited(kind) {
			run.Violation(fmt.Sprintf("%s %s no-fault", kind, cfg), kind+" without any fault ("+cfg+"): "+detail, fcase{kind, scenario, size, "none", nil, nil, detail})
		}
	})
	os.RemoveAll(e.dir)
	region := dry.Region()
	var regionDesc []string
	for _, s := range region {
		regionDesc = append(regionDesc, s.String())
	}
	type job struct {
		j      int
		inject string
		kind   string
	}
	var jobs []job
	for j, s := range region {
		if j%stride != 0 && s.Name == "write" && j > 3 && j < len(region)-12 {
			continue // thin out the middle chunk writes of large payloads in the quick tier
		}
		jobs = append(jobs, job{j, fmt.Sprintf("%s:signal=SIGKILL:when=%d", s.Name, s.Ordinal), "kill-before"})
		for _, en := range errnoFor[s.Name] {
			if killsOnly {
				break
			}
			jobs = append(jobs, job{j, fmt.Sprintf("%s:error=%s:when=%d", s.Name, en, s.Ordinal), "error-" + en})
		}
		// one cause, lasting: from this operation on every call of the same kind fails (the process
		// has run out of descriptors / of disk space) - a single fault in the sense of the statement,
		// but the code meets it again on its error path
		if !killsOnly {
			switch s.Name {
			case "openat":
				jobs = append(jobs, job{j, fmt.Sprintf("%s:error=EMFILE:when=%d+", s.Name, s.Ordinal), "persistent-EMFILE"})
			case "write":
				jobs = append(jobs, job{j, fmt.Sprintf("%s:error=ENOSPC:when=%d+", s.Name, s.Ordinal), "persistent-ENOSPC"})
			}
		}
	}
	vlib.Parallel(len(jobs), W, func(k int) {
		jb := jobs[k]
		target := region[jb.j]
		for attempt := 0; attempt < 2; attempt++ {
			e, err := setup(base, atomic.AddInt64(&caseCounter, 1), scenario, size, seed, srcfile)
			if err != nil {
				run.Inconclusive("setup: " + err.Error())
				return
			}
			res, err := vlib.RunStrace(filepath.Join(e.dir, "strace.log"), jb.inject, nil, e.childArgs(extra...)...)
			if err != nil || res.TimedOut || res.Begin < 0 {
				os.RemoveAll(e.dir)
				if attempt == 1 {
					run.Inconclusive(fmt.Sprintf("injected run %s %s did not complete: %v", cfg, jb.inject, err))
				}
				continue
			}
			// did the injection land on the intended syscall of the region?
			reg := res.Region()
			landed := false
			if strings.HasPrefix(jb.kind, "kill") {
				landed = res.Killed && len(reg) == jb.j+1 && reg[jb.j].Name == target.Name
			} else {
				landed = len(reg) > jb.j && reg[jb.j].Injected && reg[jb.j].Name == target.Name
			}
			if !landed {
				os.RemoveAll(e.dir)
				if attempt == 1 {
					run.Count("injections_not_landed", 1)
				}
				continue
			}
			run.Eval(1)
			fault := fmt.Sprintf("%s at region syscall %d/%d: %s", jb.kind, jb.j+1, len(region), target.String())
			putOK := strings.HasPrefix(res.Stdout, "PUTOK")
			switch {
			case res.Killed:
				atomic.AddInt64(&nKilled, 1)
			case putOK:
				atomic.AddInt64(&nPutOK, 1)
			default:
				atomic.AddInt64(&nPutErr, 1)
			}
			verify(e, fault, putOK, func(kind, detail string) {
				if limited(kind + "/" + scenario) {
					run.Count("suppressed_duplicate_reports", 1)
					return
				}
				var tail []string
				for _, s := range reg {
					tail = append(tail, s.String())
				}
				run.Violation(fmt.Sprintf("%s %s %s@%d/%s", kind, cfg, jb.kind, jb.j+1, target.Name),
					fmt.Sprintf("%s after %s in scenario %s: %s", kind, fault, cfg, detail),
					fcase{kind, scenario, size, fault, regionDesc, tail, detail})
			})
			run.Distinct(fmt.Sprintf("%s|%s|%d|%s", cfg, jb.kind, jb.j, target.Name))
			key := fmt.Sprintf("%s/%s/%s", scenario, target.Name, strings.SplitN(jb.kind, "-", 2)[0])
			v, _ := landing.LoadOrStore(key, new(int64))
			atomic.AddInt64(v.(*int64), 1)
			os.RemoveAll(e.dir)
			return
		}
	})
}

func dryOut(r *vlib.StraceResult) string {
	if r == nil {
		return ""
	}
	return r.Stdout
}

// ---------- RLIMIT_FSIZE short writes ----------

func shortWrites(base string, scenario string, size int, seed int64) {
	limits := map[int]bool{0: true, 1: true, 100: true, 174: true, 175: true, size / 2: true, 32768: true, size - 1: true, size: true, size + 174: true}
	var ls []int
	for l := range limits {
		if l >= 0 {
			ls = append(ls, l)
		}
	}
	sort.Ints(ls)
	for _, lim := range ls {
		e, err := setup(base, atomic.AddInt64(&caseCounter, 1), scenario, size, seed, false)
		if err != nil {
			run.Inconclusive("setup: " + err.Error())
			return
		}
		cmd := exec.Command(childBin, e.childArgs(fmt.Sprintf("fsize=%d", lim))[1:]...)
		cmd.Env = append(os.Environ(), "GOMAXPROCS=1")
		out, _ := cmd.CombinedOutput()
		run.Eval(1)
		putOK := strings.HasPrefix(string(out), "PUTOK")
		if putOK {
			atomic.AddInt64(&nPutOK, 1)
		} else {
			atomic.AddInt64(&nPutErr, 1)
		}
		fault := fmt.Sprintf("RLIMIT_FSIZE=%d (real short write / EFBIG); child said %q", lim, strings.TrimSpace(string(out)))
		verify(e, fault, putOK, func(kind, detail string) {
			if limited(kind + "/fsize") {
				return
			}
			run.Violation(fmt.Sprintf("%s %s size=%d fsize=%d", kind, scenario, size, lim), fmt.Sprintf("%s after %s in scenario %s size %d: %s", kind, fault, scenario, size, detail), fcase{kind, scenario, size, fault, nil, nil, detail})
		})
		run.Distinct(fmt.Sprintf("fsize|%s|%d|%d", scenario, size, lim))
		run.Count("short_write_runs", 1)
		os.RemoveAll(e.dir)
	}
}

// ---------- many failed Puts in one process ----------

// failedPutBurst: a process in which Put fails again and again (a full disk, a source that keeps failing)
// must go on serving the entries it has. The descriptor limit is lowered to a little above current use
// and the collector is switched off for the duration (a finalizer closing a forgotten file would hide
// the leak until the day it does not run in time); both are restored before anything else runs.
func failedPutBurst(base string) {
	e, err := setup(base, atomic.AddInt64(&caseCounter, 1), "new", 4096, 77, false)
	if err != nil {
		run.Inconclusive("setup: " + err.Error())
		return
	}
	defer os.RemoveAll(e.dir)
	ents, _ := os.ReadDir("/proc/self/fd")
	var old syscall.Rlimit
	if syscall.Getrlimit(syscall.RLIMIT_NOFILE, &old) != nil {
		return
	}
	lim := old
	lim.Cur = uint64(len(ents) + 40)
	if lim.Cur > old.Max || syscall.Setrlimit(syscall.RLIMIT_NOFILE, &lim) != nil {
		return
	}
	gc := debug.SetGCPercent(-1)
	defer func() {
		debug.SetGCPercent(gc)
		syscall.Setrlimit(syscall.RLIMIT_NOFILE, &old)
		runtime.GC()
	}()
	c, _ := cache.Open(e.dir)
	p := e.newPayload()
	for i := 0; i < 150; i++ {
		var id cache.ActionID
		copy(id[:], fmt.Sprintf("burst-%04d......................", i))
		fresh := append([]byte(fmt.Sprintf("burst %d ", i)), p...)
		h := &hostile{data: fresh, failPass: 2, failAt: (i * 37) % len(fresh), mode: []string{"error", "eof", "flip"}[i%3], extra: []byte("EXTRA")}
		_, _, perr := c.Put(id, h)
		run.Eval(1)
		if perr == nil {
			continue
		}
		for name, want := range map[string][]byte{"u1": e.unrelated[aid("u1")], "u2": e.unrelated[aid("u2")]} {
			got, _, gerr := c.GetBytes(aid(name))
			if gerr != nil || !bytes.Equal(got, want) {
				run.Violation(fmt.Sprintf("unrelated-entry-unreadable failed-put-burst n=%d", i+1),
					fmt.Sprintf("unrelated-entry-unreadable: after %d failed Puts in this process entry %q cannot be read any more: %v (descriptor limit %d, %d in use before the burst)", i+1, name, gerr, lim.Cur, len(ents)),
					fcase{"unrelated-entry-unreadable", "failed-put-burst", 4096, fmt.Sprintf("%d Puts whose source fails in the copy pass", i+1), nil, nil, fmt.Sprint(gerr)})
				return
			}
		}
	}
	run.Count("failed_puts_in_a_burst_with_a_low_descriptor_limit", 150)
}

// ---------- index write cut short, then halt ----------

// indexCuts: the one write that publishes an entry stops after L bytes (a real short write: RLIMIT_FSIZE is
// lowered once the index file is open) and the process halts before its next file operation, so that no
// clean-up runs. The index file then holds a prefix of the new entry followed by the rest of the old one
// (entries have a fixed width and are overwritten in place).
func indexCuts(base string, scenario string, size int, seed int64, stride int) {
	for L := 0; L <= 176; L += stride {
		e, err := setup(base, atomic.AddInt64(&caseCounter, 1), scenario, size, seed, false)
		if err != nil {
			run.Inconclusive("setup: " + err.Error())
			return
		}
		cmd := exec.Command(childBin, e.childArgs(fmt.Sprintf("indexcut=%d", L))[1:]...)
		cmd.Env = append(os.Environ(), "GOMAXPROCS=1")
		out, _ := cmd.CombinedOutput()
		run.Eval(1)
		if !strings.HasPrefix(string(out), "HALTED") {
			run.Inconclusive(fmt.Sprintf("index-cut child did not halt at the index write: %q", strings.TrimSpace(string(out))))
			os.RemoveAll(e.dir)
			continue
		}
		fault := fmt.Sprintf("index entry write cut short after %d bytes, then halt (old target size %d, new size %d)", L, len(e.oldTarget), size)
		verify(e, fault, false, func(kind, detail string) {
			if limited(kind + "/indexcut") {
				return
			}
			run.Violation(fmt.Sprintf("%s %s size=%d indexcut=%d seed=%d", kind, scenario, size, L, seed), fmt.Sprintf("%s after %s in scenario %s: %s", kind, fault, scenario, detail), fcase{kind, scenario, size, fault, nil, nil, detail})
		})
		run.Distinct(fmt.Sprintf("indexcut|%s|%d|%d|%d", scenario, size, seed%4, L))
		run.Count("index_cut_runs", 1)
		os.RemoveAll(e.dir)
	}
}

// ---------- hostile sources (in-process) ----------

type hostile struct {
	data      []byte
	pos       int
	pass      int // incremented by Seek(0,0)
	failPass  int
	failAt    int
	mode      string // "error", "eof", "flip", "seekfail", "shorter", "longer"
	extra     []byte
	seekCalls int
}

func (h *hostile) Seek(off int64, whence int) (int64, error) {
	h.seekCalls++
	if off == 0 && whence == 0 {
		h.pass++
		h.pos = 0
		if h.mode == "seekfail" && h.pass == h.failPass {
			return 0, errors.New("injected seek failure")
		}
		return 0, nil
	}
	return 0, errors.New("unsupported seek")
}

func (h *hostile) Read(p []byte) (int, error) {
	data := h.data
	active := h.pass == h.failPass
	if active && h.mode == "shorter" {
		data = data[:h.failAt]
	}
	if active && h.mode == "longer" {
		data = append(append([]byte{}, data...), h.extra...)
	}
	if h.pos >= len(data) {
		return 0, io.EOF
	}
	n := copy(p, data[h.pos:])
	if active && (h.mode == "error" || h.mode == "eof") && h.pos+n > h.failAt {
		n = h.failAt - h.pos
		if n <= 0 {
			if h.mode == "error" {
				return 0, errors.New("injected read error")
			}
			return 0, io.EOF
		}
	}
	if active && h.mode == "flip" && h.failAt >= h.pos && h.failAt < h.pos+n {
		p[h.failAt-h.pos] ^= 0x5a
	}
	h.pos += n
	return n, nil
}

func sourceFaults(base string, rng *rand.Rand, n int) {
	for i := 0; i < n; i++ {
		scenario := []string{"new", "overwrite", "restore-same", "stale-index", "repaired-same-size"}[rng.Intn(5)]
		size := []int{1, 2, 100, 4096, 32767, 32768, 32769, 70000}[rng.Intn(8)]
		seed := rng.Int63n(1000)
		e, err := setup(base, atomic.AddInt64(&caseCounter, 1), scenario, size, seed, false)
		if err != nil {
			run.Inconclusive("setup: " + err.Error())
			return
		}
		aged := rng.Intn(2) == 0
		if aged {
			// a cache that has not been used for a while: every file was last touched hours or days ago
			// (an output that is present and valid stays untouched however old it is)
			old := time.Now().Add(-[]time.Duration{61 * time.Minute, 3 * time.Hour, 50 * time.Hour}[rng.Intn(3)])
			filepath.Walk(e.dir, func(p string, info os.FileInfo, err error) error {
				if err == nil && info.Mode().IsRegular() {
					os.Chtimes(p, old, old)
				}
				return nil
			})
			run.Count("source_fault_cases_on_an_aged_cache", 1)
		}
		p := e.newPayload()
		mode := []string{"error", "eof", "flip", "seekfail", "shorter", "longer"}[rng.Intn(6)]
		at := []int{0, size - 1, size / 2, rng.Intn(size)}[rng.Intn(4)]
		h := &hostile{data: p, failPass: 1 + rng.Intn(2), failAt: at, mode: mode, extra: []byte("EXTRA")}
		c, _ := cache.Open(e.dir)
		var perr error
		pv, st := vlib.Try(func() { _, _, perr = c.Put(e.target, h) })
		run.Eval(1)
		fault := fmt.Sprintf("source %s at offset %d on pass %d (size %d, files aged: %v)", mode, at, h.failPass, size, aged)
		rep := func(kind, detail string) {
			if limited(kind + "/source") {
				return
			}
			run.Violation(fmt.Sprintf("%s %s %s", kind, scenario, fault), fmt.Sprintf("%s after %s in scenario %s: %s", kind, fault, scenario, detail), fcase{kind, scenario, size, fault, nil, nil, detail})
		}
		if pv != nil {
			rep("put-panic", fmt.Sprintf("%v at %s", pv, vlib.RepoFrame(st)))
		}
		if perr == nil {
			// Put accepted what the source delivered on its passes; what it stored is then
			// whatever pass 1 hashed. Only the gates apply (content differs from newPayload).
			atomic.AddInt64(&nPutOK, 1)
			e2 := *e
			e2.oldTarget = nil
			verifyGatesOnly(&e2, fault, rep)
		} else {
			atomic.AddInt64(&nPutErr, 1)
			verify(e, fault, false, rep)
		}
		run.Distinct(fmt.Sprintf("source|%s|%s|%d|%d|%d", scenario, mode, size, at, h.failPass))
		run.Count("source_fault_cases", 1)
		os.RemoveAll(e.dir)
	}
}

// verifyGatesOnly: like verify but without the "neither old nor new content" ownership rule.
func verifyGatesOnly(e *env, fault string, report func(kind, detail string)) {
	filtered := func(kind, detail string) {
		if kind == "target-returns-bytes-never-stored" {
			return
		}
		report(kind, detail)
	}
	verify(e, fault, false, filtered)
}

// ---------- a failing / stopped Put overlapping a Put of the same content (in-process, gated) ----------
//
// The output file is shared by every id whose content is the same, so a Put that
// fails or stops can only be harmless if it never damages what another writer of
// the same bytes has already put there. The interleaving is fixed by gates inside
// the two sources (no timing): A pauses in its copy pass at offset k, B runs until
// it fails (or pauses: "the process stops here") at offset j, A is released and
// returns nil, the gates are evaluated, then B is released.

type pairSrc struct {
	data    []byte
	pos     int
	pass    int // 1 = hashing pass, 2 = copy pass
	mode    string
	at      int
	pauseAt int // -1: never
	paused  chan struct{}
	release chan struct{}
}

func (g *pairSrc) Seek(off int64, whence int) (int64, error) {
	if off != 0 || whence != 0 {
		return 0, errors.New("unsupported seek")
	}
	g.pass++
	g.pos = 0
	if g.pass == 2 && g.mode == "seekfail" {
		return 0, errors.New("injected seek failure")
	}
	return 0, nil
}

func (g *pairSrc) Read(p []byte) (int, error) {
	if g.pass == 2 && g.pauseAt >= 0 && g.pos >= g.pauseAt && g.paused != nil {
		close(g.paused)
		g.paused = nil
		<-g.release
	}
	data := g.data
	active := g.pass == 2
	if active && g.mode == "shorter" {
		data = data[:g.at]
	}
	if g.pos >= len(data) {
		return 0, io.EOF
	}
	if len(p) > 4096 {
		p = p[:4096]
	}
	n := copy(p, data[g.pos:])
	if active && (g.mode == "error" || g.mode == "eof") && g.pos+n > g.at {
		n = g.at - g.pos
		if n <= 0 {
			if g.mode == "error" {
				return 0, errors.New("injected read error")
			}
			return 0, io.EOF
		}
	}
	if active && g.mode == "flip" && g.at >= g.pos && g.at < g.pos+n {
		p[g.at-g.pos] ^= 0x5a
	}
	g.pos += n
	return n, nil
}

const pairKnownKey = "pair failed-put-damages-overlapping-put-of-same-content"

func pairFaults(base string, rng *rand.Rand, n int) {
	for i := 0; i < n; i++ {
		size := []int{2, 100, 4096, 32769, 70000, 200000}[rng.Intn(6)]
		seed := rng.Int63n(1000)
		e, err := setup(base, atomic.AddInt64(&caseCounter, 1), "new", size, seed, false)
		if err != nil {
			run.Inconclusive("setup: " + err.Error())
			return
		}
		twin := aid("twin")
		e.gatesOnly = append(e.gatesOnly, twin)
		p := e.newPayload()
		k := []int{0, 1, size / 2, size - 1, -1}[rng.Intn(5)] // -1: A is not paused, B stops first
		j := []int{0, size / 2, size - 1, rng.Intn(size)}[rng.Intn(4)]
		bmode := []string{"stall", "stall", "error", "eof", "flip", "seekfail", "shorter"}[rng.Intn(7)]
		if k < 0 {
			bmode = "stall"
		}
		c, _ := cache.Open(e.dir)
		a := &pairSrc{data: p, pauseAt: k, paused: make(chan struct{}), release: make(chan struct{})}
		b := &pairSrc{data: p, pauseAt: -1, mode: bmode, at: j, paused: make(chan struct{}), release: make(chan struct{})}
		if bmode == "stall" {
			b.mode, b.pauseAt = "", j
		}
		aPaused, bPaused := a.paused, b.paused
		aDone, bDone := make(chan error, 1), make(chan error, 1)
		fault := fmt.Sprintf("Put(twin, same %d bytes) %s at offset %d of its copy pass while Put(target) is paused at offset %d of its copy pass", size, bmode, j, k)
		if k < 0 {
			fault = fmt.Sprintf("Put(twin, same %d bytes) stopped at offset %d of its copy pass, then a complete Put(target)", size, j)
		}
		failedFamily := bmode != "stall"
		rep := func(kind, detail string) {
			if failedFamily && (kind == "getfile-names-file-with-wrong-content" || kind == "put-succeeded-but-not-readable") {
				// known finding (see known_findings.txt): any failure path of copyFile truncates the
				// shared output file under the other writer, whose remaining writes leave a hole
				run.Violation(pairKnownKey, kind+" after "+fault+": "+detail, fcase{kind, "pair", size, fault, nil, nil, detail})
				run.Count("pair_known_pattern_observed", 1)
				return
			}
			if limited(kind + "/pair") {
				return
			}
			run.Violation(fmt.Sprintf("pair %s %s k=%d j=%d size=%d", kind, bmode, k, j, size), fmt.Sprintf("%s after %s: %s", kind, fault, detail), fcase{kind, "pair", size, fault, nil, nil, detail})
		}
		startB := func() {
			go func() {
				var perr error
				if pv, st := vlib.Try(func() { _, _, perr = c.Put(twin, b) }); pv != nil {
					perr = fmt.Errorf("panic: %v at %s", pv, vlib.RepoFrame(st))
				}
				bDone <- perr
			}()
		}
		startA := func() {
			go func() {
				var perr error
				if pv, st := vlib.Try(func() { _, _, perr = c.Put(e.target, a) }); pv != nil {
					perr = fmt.Errorf("panic: %v at %s", pv, vlib.RepoFrame(st))
				}
				aDone <- perr
			}()
		}
		ok := true
		if k >= 0 {
			startA()
			select {
			case <-aPaused:
			case err := <-aDone:
				run.Inconclusive(fmt.Sprintf("pair: Put(target) returned (%v) before reaching its pause point", err))
				ok = false
			}
		}
		if ok {
			var aerr, berr error
			bReturned := false
			if k >= 0 {
				startB()
				select {
				case <-bPaused:
				case berr = <-bDone:
					bReturned = true
				}
				close(a.release)
				aerr = <-aDone
			} else {
				// B first: it reaches its stop point in an otherwise quiet cache, then A runs to completion
				startB()
				select {
				case <-bPaused:
				case berr = <-bDone:
					bReturned = true
				}
				startA()
				aerr = <-aDone
			}
			run.Eval(1)
			if aerr != nil {
				rep("overlapped-put-failed", fmt.Sprintf("Put(target) with a healthy source returned %v", aerr))
			} else {
				// B is stopped (or has failed): the gates, A's entry and the unrelated entries
				verify(e, fault, true, rep)
			}
			if failedFamily && bReturned && berr == nil {
				run.Count("pair_faulty_put_returned_nil", 1)
			}
			if !bReturned {
				close(b.release)
				berr = <-bDone
				if berr != nil {
					rep("stalled-put-failed", fmt.Sprintf("Put(twin) with a healthy, merely slow source returned %v", berr))
				} else {
					verify(e, fault+", then resumed", true, rep)
					// the twin must now be readable as well
					if d, _, gerr := c.GetBytes(twin); gerr != nil || !bytes.Equal(d, p) {
						rep("put-succeeded-but-not-readable", fmt.Sprintf("Put(twin) returned nil but GetBytes(twin) = (%d bytes, %v)", len(d), gerr))
					}
				}
			}
			run.Distinct(fmt.Sprintf("pair|%s|%d|%d|%d", bmode, size, k, j))
			run.Count("pair_cases", 1)
			if failedFamily {
				run.Count("pair_cases_failed_put", 1)
			} else {
				run.Count("pair_cases_stopped_put", 1)
			}
		} else {
			close(b.release)
		}
		os.RemoveAll(e.dir)
	}
}

// ---------- random SIGKILL of a looping writer ----------

func randomKills(base string, rng *rand.Rand, n int) {
	for i := 0; i < n; i++ {
		dir := filepath.Join(base, fmt.Sprintf("loop%d", atomic.AddInt64(&caseCounter, 1)))
		os.MkdirAll(dir, 0o777)
		c, err := cache.Open(dir)
		if err != nil {
			run.Inconclusive(err.Error())
			return
		}
		rounds := 3 + rng.Intn(4)
		for k := 0; k < rounds; k++ {
			cmd := exec.Command(childBin, "loop", dir, fmt.Sprint(rng.Intn(1000)))
			cmd.Env = append(os.Environ(), "GOMAXPROCS=2")
			if err := cmd.Start(); err != nil {
				run.Inconclusive(err.Error())
				return
			}
			time.Sleep(time.Duration(5+rng.Intn(60)) * time.Millisecond)
			cmd.Process.Signal(syscall.SIGKILL)
			cmd.Wait()
			run.Eval(1)
			run.Count("random_kills", 1)
			// gates on every id the loop uses
			for id := 0; id < 6; id++ {
				var a cache.ActionID
				copy(a[:], fmt.Sprintf("loop-id-%02d......................", id))
				data, ent, gerr := c.GetBytes(a)
				if gerr == nil {
					if sum := sha256.Sum256(data); sum != [32]byte(ent.OutputID) {
						run.Violation(fmt.Sprintf("random-kill getbytes-wrong-hash round=%d", k), "after SIGKILL of a storing process GetBytes returned bytes whose sha256 differs from the reported OutputID", fcase{Kind: "random-kill", Detail: fmt.Sprintf("id %d", id)})
					}
					run.Count("random_kill_hits", 1)
				}
				file, fe, ferr := c.GetFile(a)
				if ferr == nil {
					b, _ := os.ReadFile(file)
					if int64(len(b)) != fe.Size || sha256.Sum256(b) != [32]byte(fe.OutputID) {
						run.Violation(fmt.Sprintf("random-kill getfile-gate round=%d", k), fmt.Sprintf("after SIGKILL of a storing process GetFile names a file of %d bytes (reported %d) whose content hash does not match the OutputID", len(b), fe.Size), fcase{Kind: "random-kill", Detail: fmt.Sprintf("id %d", id)})
					}
				}
			}
		}
		run.Distinct(fmt.Sprintf("randomkill|%d", i))
		os.RemoveAll(dir)
	}
}

func main() {
	vlib.Main("C12", "fault_enumeration", 15*time.Minute, func(r *vlib.Run) {
		run = r
		childBin = filepath.Join(os.Getenv("VERIF_BUILD"), "c12child")
		r.Rule("configurations = scenario (new, overwrite, restore-same with a sharing entry, stale index entry, pre-damaged output: wrong bytes / shorter / longer) x payload size (0,1,2,4096,32767,32768,32769,160KiB) x source (memory / real file). For each: a dry run under strace lists every file syscall Put performs between two markers; then one run per syscall with SIGKILL at its entry (= halt between operations) and one per (syscall, errno). Plus a burst of 150 failing Puts in one process under a low descriptor limit with the collector off (unrelated entries must stay readable), RLIMIT_FSIZE short writes at 10 offsets, the index entry's write cut short after each of its 176 byte offsets followed by a halt (overwrites towards a larger and a smaller output at every offset, other starting states sampled), in-process hostile ReadSeekers (error / early EOF / flipped byte / failing Seek / shorter / longer second pass; a fifth of them on an output that this process saw damaged and then repaired; half of them on a cache whose files were last touched 61 min / 3 h / 50 h ago), and SIGKILL of a looping writer at random times. Non-trivial/distinct = distinct (configuration, fault kind, syscall index) whose injection was confirmed, from the injected run's own trace, to have landed on the intended syscall inside Put.")
		r.Assume("crash = the process stops (SIGKILL); page-cache / power loss is out of scope (the code does not fsync)")
		r.Assume("the cache keeps no in-memory state, so opening the directory afresh in the harness process is equivalent to a fresh verifier process")
		if _, err := exec.LookPath("strace"); err != nil {
			r.Inconclusive("strace not available")
			return
		}
		base := vlib.Scratch()
		W := runtime.NumCPU()
		rng := r.Rand("configs")
		type cfg struct {
			scenario string
			size     int
			srcfile  bool
		}
		var cfgs []cfg
		sizes := []int{0, 1, 2, 4096, 32767, 32768, 32769, 160 << 10}
		if r.Quick() {
			for _, sc := range scenarios {
				// two sizes per scenario: one small, one spanning several writes
				cfgs = append(cfgs, cfg{sc, []int{0, 1, 2, 4096}[rng.Intn(4)], false})
				cfgs = append(cfgs, cfg{sc, []int{32767, 32768, 32769, 160 << 10}[rng.Intn(4)], rng.Intn(2) == 0})
			}
		} else {
			for _, sc := range scenarios {
				for _, sz := range sizes {
					cfgs = append(cfgs, cfg{sc, sz, false})
					if sz >= 32767 {
						cfgs = append(cfgs, cfg{sc, sz, true})
					}
				}
			}
		}
		stride := r.Pick(2, 1)
		for i, c := range cfgs {
			enumerate(base, c.scenario, c.size, int64(100+i), c.srcfile, stride, W)
		}
		// a source that changes between its two passes (Put fails by itself at the hash re-check),
		// stopped at every file-operation boundary - with an index entry already naming that output
		for i, sz := range r.PickInts([]int{2, 40000}, []int{1, 2, 4096, 32769, 40000, 160 << 10}) {
			for _, sc := range []string{"stale-index", "new", "overwrite"} {
				enumerate(base, sc, sz, int64(300+i), false, 1, W, fmt.Sprintf("flip=%d", sz/2))
			}
		}
		// short writes
		var swJobs []cfg
		for _, sc := range []string{"new", "overwrite", "restore-same", "predamaged-wrongbytes", "predamaged-longer"} {
			for _, sz := range r.PickInts([]int{1, 40000}, []int{1, 4096, 32769, 40000, 160 << 10}) {
				swJobs = append(swJobs, cfg{sc, sz, false})
			}
		}
		vlib.Parallel(len(swJobs), W, func(i int) { shortWrites(base, swJobs[i].scenario, swJobs[i].size, int64(500+i)) })
		// index write cut short + halt: every offset for an overwrite with a larger (more digits) and with a
		// smaller output, sampled offsets for the other starting states
		type icfg struct {
			scenario string
			size     int
			seed     int64
			stride   int
		}
		icJobs := []icfg{{"overwrite", 40000, 2, 1}, {"overwrite", 3, 3, 1}, {"overwrite", 4096, 1, r.Pick(7, 1)}, {"new", 100, 0, r.Pick(7, 1)}, {"stale-index", 4096, 0, r.Pick(7, 1)}, {"restore-same", 32769, 0, r.Pick(7, 1)}}
		vlib.Parallel(len(icJobs), W, func(i int) { indexCuts(base, icJobs[i].scenario, icJobs[i].size, icJobs[i].seed, icJobs[i].stride) })
		failedPutBurst(base)
		// hostile sources
		nsf := r.Pick(600, 30000)
		vlib.Parallel(W, W, func(w int) { sourceFaults(base, r.Rand(fmt.Sprintf("src-%d", w)), nsf/W) })
		// a failing / stopped Put overlapping a Put of the same content
		npf := r.Pick(320, 16000)
		vlib.Parallel(W, W, func(w int) { pairFaults(base, r.Rand(fmt.Sprintf("pair-%d", w)), npf/W) })
		// random kills
		nrk := r.Pick(8, 200)
		vlib.Parallel(W, W, func(w int) { randomKills(base, r.Rand(fmt.Sprintf("kill-%d", w)), (nrk+W-1)/W) })

		table := map[string]int64{}
		landing.Range(func(k, v any) bool { table[k.(string)] = atomic.LoadInt64(v.(*int64)); return true })
		r.Set("landing_table_scenario_syscall_kind", table)
		r.Set("verifications", atomic.LoadInt64(&nVerified))
		r.Set("runs_killed", atomic.LoadInt64(&nKilled))
		r.Set("runs_put_returned_error", atomic.LoadInt64(&nPutErr))
		r.Set("runs_put_returned_nil", atomic.LoadInt64(&nPutOK))
		r.Set("target_readable_after_fault", atomic.LoadInt64(&nTargetReadable))
		r.Set("target_notfound_after_fault", atomic.LoadInt64(&nTargetMissing))
		r.Sample(map[string]any{"kind": "injected-run", "scenario": "overwrite", "fault": "write:signal=SIGKILL:when=2 (kill at entry of the 2nd write of the output file)"})
		r.Sample(map[string]any{"kind": "configs", "list": fmt.Sprint(cfgs)})
		if atomic.LoadInt64(&nKilled) < 50 || atomic.LoadInt64(&nPutErr) < 50 {
			r.Inconclusive("too few injected runs landed")
		}
		if r.Counter("injections_not_landed") > atomic.LoadInt64(&nVerified)/10 {
			r.Inconclusive(fmt.Sprintf("%d injections did not land on the intended syscall", r.Counter("injections_not_landed")))
		}
	})
}
