# non-race child that performs the Put under strace
go build "${MODFLAG[@]}" -tags verif -o "$B/c12child" ./checks/c12/child || return 1
