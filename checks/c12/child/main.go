// c12child performs exactly one cache.Put on the locked main thread between two
// marker syscalls, so that strace can stop or fail it at a chosen syscall.
//
//	c12child put <cachedir> <idhex> <seed> <size> [fsize=N] [srcfile=PATH]
//	c12child loop <cachedir> <seed>         (random-kill workload: stores forever)
package main

import (
	"bytes"
	"encoding/hex"
	"fmt"
	"io"
	"os"
	"runtime"
	"runtime/debug"
	"strconv"
	"strings"
	"syscall"

	"os/signal"

	"github.com/rogpeppe/go-internal/cache"

	"verif/gen/payload"
)

func init() { runtime.LockOSThread() }

type flipSource struct {
	io.ReadSeeker
	seeks int
	pos   int64
	at    int64
}

func (f *flipSource) Seek(off int64, whence int) (int64, error) {
	f.seeks++
	n, err := f.ReadSeeker.Seek(off, whence)
	f.pos = n
	return n, err
}

func (f *flipSource) Read(p []byte) (int, error) {
	n, err := f.ReadSeeker.Read(p)
	if f.seeks >= 2 && f.at >= f.pos && f.at < f.pos+int64(n) {
		p[f.at-f.pos] ^= 0x5a
	}
	f.pos += int64(n)
	return n, err
}

func main() {
	debug.SetGCPercent(-1)
	if len(os.Args) < 4 {
		fmt.Println("usage")
		os.Exit(2)
	}
	dir := os.Args[2]
	c, err := cache.Open(dir)
	if err != nil {
		fmt.Println("OPENERR", err)
		os.Exit(2)
	}
	if os.Args[1] == "loop" {
		seed, _ := strconv.ParseInt(os.Args[3], 10, 64)
		for i := int64(0); ; i++ {
			k := (seed + i*7) % 6
			var id cache.ActionID
			copy(id[:], fmt.Sprintf("loop-id-%02d......................", k))
			sizes := []int{0, 1, 100, 4096, 32769, 160 << 10}
			sz := sizes[int((seed+i)%int64(len(sizes)))]
			// a few distinct contents per id, so overwrites, re-stores and shared outputs all occur
			p := payload.Make("loop", (seed+i)%4, sz)
			c.Put(id, bytes.NewReader(p))
		}
	}
	idb, _ := hex.DecodeString(os.Args[3])
	var id cache.ActionID
	copy(id[:], idb)
	seed, _ := strconv.ParseInt(os.Args[4], 10, 64)
	size, _ := strconv.Atoi(os.Args[5])
	var src io.ReadSeeker = bytes.NewReader(payload.Make("c12", seed, size))
	for _, a := range os.Args[6:] {
		switch {
		case strings.HasPrefix(a, "fsize="):
			n, _ := strconv.ParseUint(a[6:], 10, 64)
			signal.Ignore(syscall.SIGXFSZ)
			lim := syscall.Rlimit{Cur: n, Max: n}
			if err := syscall.Setrlimit(syscall.RLIMIT_FSIZE, &lim); err != nil {
				fmt.Println("RLIMITERR", err)
				os.Exit(2)
			}
		case strings.HasPrefix(a, "indexcut="):
			// the write of the index entry is cut short after N bytes (RLIMIT_FSIZE set once the index file
			// is open) and the process halts before its next file operation
			n, _ := strconv.ParseUint(a[9:], 10, 64)
			cache.VerifSetHook(func(point string) {
				switch point {
				case "cache.putIndex.afterOpen":
					signal.Ignore(syscall.SIGXFSZ)
					lim := syscall.Rlimit{Cur: n, Max: n}
					if err := syscall.Setrlimit(syscall.RLIMIT_FSIZE, &lim); err != nil {
						fmt.Println("RLIMITERR", err)
						os.Exit(2)
					}
				case "cache.putIndex.afterWrite":
					fmt.Println("HALTED after the index write")
					os.Exit(0)
				}
			})
		case strings.HasPrefix(a, "flip="):
			// the source delivers a different byte at this offset on its second pass
			off, _ := strconv.Atoi(a[5:])
			src = &flipSource{ReadSeeker: src, at: int64(off)}
		case strings.HasPrefix(a, "srcfile="):
			f, err := os.Open(a[8:])
			if err != nil {
				fmt.Println("SRCERR", err)
				os.Exit(2)
			}
			src = f
		}
	}
	os.Stat("/VERIF_MARK_BEGIN")
	out, n, err := c.Put(id, src)
	os.Stat("/VERIF_MARK_END")
	if err != nil {
		fmt.Printf("PUTERR %v\n", err)
		os.Exit(0)
	}
	fmt.Printf("PUTOK %x %d\n", out[:], n)
}
