// Package batch is what the two back-ends of the C04 batch process share: the batch description, the probe
// commands / Setup installed through testscript.Params, and the result file. The back-ends are the recording T of
// tsh (inside the check binary) and the real *testing.T (a test binary built from checks/c04/realt).
package batch

import (
	"crypto/sha256"
	"encoding/hex"
	"encoding/json"
	"fmt"
	"os"
	"path/filepath"
	"sort"
	"strings"
	"sync"
	"sync/atomic"
	"time"

	"github.com/rogpeppe/go-internal/testscript"
)

type ScriptSpec struct {
	File      string   `json:"file"`
	Name      string   `json:"name"` // subtest name RunT must use
	Token     string   `json:"token"`
	SetupFail bool     `json:"setup_fail"`
	Ending    string   `json:"ending"`
	Marks     []int    `json:"marks"` // defer marks that are registered before the script ends
	Entries   []string `json:"entries"`
	Contents  []string `json:"entry_contents"` // parallel to Entries (archive order; a later entry of the same path wins)
	Jobs      int      `json:"jobs"`
}

type BatchSpec struct {
	Scripts   []ScriptSpec `json:"scripts"`
	Parallel  bool         `json:"parallel"`
	Retention string       `json:"retention"` // "", "testwork", "workdirroot"
	WorkRoot  string       `json:"workroot"`
	PidDir    string       `json:"piddir"`
	Style     int          `json:"style"`
	Out       string       `json:"out"`
	Arrivals  int          `json:"arrivals"`
	BigName   string       `json:"big_name"` // script (subtest name) that builds a big tree, "" if none
	BigToken  string       `json:"big_token"`
}

type ScriptResult struct {
	Name     string   `json:"name"`
	Verdict  string   `json:"verdict"`
	Tree     []string `json:"tree"`
	EnvNames []string `json:"env_names"`
	Problems []string `json:"problems"`
	Defers   []int    `json:"defers"`
	Log      string   `json:"log"`
	EndMono  int64    `json:"end_mono"`
}

type BatchResult struct {
	Scripts            []ScriptResult `json:"scripts"`
	Escapes            []string       `json:"panic_escapes"`
	RendezvousComplete int            `json:"rendezvous_complete"`
	OverlapEnds        int            `json:"ends_overlapping_a_removal"`
}

// Collector gathers what the scripts of one batch report.
type Collector struct {
	Spec        BatchSpec
	byName      map[string]*ScriptSpec
	mu          sync.Mutex
	res         map[string]*ScriptResult
	complete    int32
	overlapEnds int32
}

// Load reads a batch description.
func Load(specPath string) (*Collector, error) {
	b, err := os.ReadFile(specPath)
	if err != nil {
		return nil, err
	}
	c := &Collector{res: map[string]*ScriptResult{}}
	if err := json.Unmarshal(b, &c.Spec); err != nil {
		return nil, err
	}
	return c, nil
}

// Get returns the (created on demand) result record of a script.
func (c *Collector) Get(name string) *ScriptResult {
	c.mu.Lock()
	defer c.mu.Unlock()
	if c.res[name] == nil {
		c.res[name] = &ScriptResult{Name: name}
	}
	return c.res[name]
}

// Lock / Unlock guard direct updates of a record returned by Get.
func (c *Collector) Lock()   { c.mu.Lock() }
func (c *Collector) Unlock() { c.mu.Unlock() }

// Params builds the testscript parameters (Setup, probe commands, retention) of the batch.
func (c *Collector) Params() testscript.Params {
	res := c.res
	_ = res
	mu := &c.mu
	get := c.Get
	problem := func(name, p string) {
		r := get(name)
		mu.Lock()
		r.Problems = append(r.Problems, p)
		mu.Unlock()
	}
	var arrived int32
	complete := &c.complete
	c.byName = map[string]*ScriptSpec{}
	for i := range c.Spec.Scripts {
		c.byName[c.Spec.Scripts[i].Name] = &c.Spec.Scripts[i]
	}
	os.Setenv("VERIF_CANARY", "host-secret")
	var files []string
	for _, s := range c.Spec.Scripts {
		files = append(files, s.File)
	}
	var tOf sync.Map // script name -> its T (from Setup)
	nameOf := func(workdir string) string { return strings.TrimPrefix(filepath.Base(workdir), "script-") }
	p := testscript.Params{
		Files: files,
		Setup: func(env *testscript.Env) error {
			name := nameOf(env.WorkDir)
			sp := c.byName[name]
			tOf.Store(name, env.T())
			env.Defer(func() { r := get(name); mu.Lock(); r.Defers = append(r.Defers, 0); mu.Unlock() })
			env.Vars = append(env.Vars, "SETUPVAR="+name)
			// where the helper lives, for exec lines that name their program by an explicit path
			for _, d := range filepath.SplitList(env.Getenv("PATH")) {
				if st, err := os.Stat(filepath.Join(d, "vhelper")); err == nil && !st.IsDir() {
					env.Vars = append(env.Vars, "VHELPER="+filepath.Join(d, "vhelper"))
					break
				}
			}
			if sp != nil && sp.SetupFail {
				return fmt.Errorf("setup refuses %s", name)
			}
			return nil
		},
		Cmds: map[string]func(ts *testscript.TestScript, neg bool, args []string){
			"snaptree": func(ts *testscript.TestScript, neg bool, args []string) {
				work := ts.Getenv("WORK")
				var l []string
				filepath.Walk(work, func(pth string, info os.FileInfo, err error) error {
					if err == nil && pth != work {
						rel, _ := filepath.Rel(work, pth)
						if info.Mode().IsRegular() {
							// files are listed with their content: "exactly the files of its archive"
							b, _ := os.ReadFile(pth)
							rel += "=" + TreeSum(b)
						}
						l = append(l, rel)
					}
					return nil
				})
				sort.Strings(l)
				r := get(ts.Name())
				mu.Lock()
				r.Tree = l
				mu.Unlock()
			},
			"grabenv": func(ts *testscript.TestScript, neg bool, args []string) {
				var names []string
				for _, l := range strings.Fields(ts.ReadFile("stdout")) {
					b, _ := hex.DecodeString(l)
					n, v, _ := strings.Cut(string(b), "=")
					names = append(names, n)
					if strings.Contains(v, "host-secret") || n == "VERIF_CANARY" {
						problem(ts.Name(), "the host variable VERIF_CANARY is visible to the script's child process")
					}
					if n == "SETUPVAR" && v != ts.Name() {
						problem(ts.Name(), fmt.Sprintf("SETUPVAR=%q belongs to another script", v))
					}
				}
				sort.Strings(names)
				r := get(ts.Name())
				mu.Lock()
				r.EnvNames = names
				mu.Unlock()
			},
			"t-abort": func(ts *testscript.TestScript, neg bool, args []string) {
				// ends the run through the script's own T, not through the script language
				if t, ok := tOf.Load(ts.Name()); ok {
					if args[0] == "skip" {
						t.(testscript.T).Skip("custom command skips the test")
					}
					t.(testscript.T).Log("custom command fails the test")
					t.(testscript.T).FailNow()
				}
				ts.Fatalf("t-abort: no T captured for %s", ts.Name())
			},
			"defer-mark": func(ts *testscript.TestScript, neg bool, args []string) {
				var n int
				fmt.Sscan(args[0], &n)
				name := ts.Name()
				abort := len(args) > 1 && args[1] == "abort"
				ts.Defer(func() {
					r := get(name)
					mu.Lock()
					r.Defers = append(r.Defers, n)
					mu.Unlock()
					if abort {
						// a clean-up that fails (FailNow on the script's T, as a Setup-registered clean-up
						// would): the functions registered before it must run all the same
						if t, ok := tOf.Load(name); ok {
							t.(testscript.T).Log(fmt.Sprintf("deferred function %d reports a failure", n))
							t.(testscript.T).FailNow()
						}
					}
				})
			},
			"rendezvous": func(ts *testscript.TestScript, neg bool, args []string) {
				if !c.Spec.Parallel {
					return
				}
				atomic.AddInt32(&arrived, 1)
				deadline := time.Now().Add(20 * time.Second)
				for atomic.LoadInt32(&arrived) < int32(c.Spec.Arrivals) && time.Now().Before(deadline) {
					time.Sleep(time.Millisecond)
				}
				if atomic.LoadInt32(&arrived) >= int32(c.Spec.Arrivals) {
					atomic.StoreInt32(complete, 1)
				}
			},
			"endgate": func(ts *testscript.TestScript, neg bool, args []string) {
				// Orchestrates the end of the batch: every script but the big-tree one ends only once the big
				// script's work directory is being removed (removeAll first makes its directories 0777), so that
				// the last script finishes while an earlier-finished one is still cleaning up.
				if !c.Spec.Parallel || c.Spec.Retention != "" || c.Spec.BigName == "" || ts.Name() == c.Spec.BigName {
					return
				}
				probe := filepath.Join(filepath.Dir(ts.Getenv("WORK")), "script-"+c.Spec.BigName, "sub-"+c.Spec.BigToken, "big-"+c.Spec.BigToken, "d000")
				deadline := time.Now().Add(3 * time.Second)
				for time.Now().Before(deadline) {
					st, err := os.Stat(probe)
					if err != nil || st.Mode().Perm() == 0o777 {
						if err == nil {
							atomic.AddInt32(&c.overlapEnds, 1)
						}
						return
					}
					time.Sleep(200 * time.Microsecond)
				}
			},
			"checkown": func(ts *testscript.TestScript, neg bool, args []string) {
				name := ts.Name()
				sp := c.byName[name]
				if sp == nil {
					problem(name, "unknown script name "+name)
					return
				}
				if v := ts.Getenv("OWNER"); v != sp.Token {
					problem(name, fmt.Sprintf("variable OWNER is %q, this script set %q", v, sp.Token))
				}
				work := ts.Getenv("WORK")
				if b, err := os.ReadFile(filepath.Join(work, "owner.txt")); err != nil || strings.TrimSpace(string(b)) != sp.Token {
					problem(name, fmt.Sprintf("owner.txt holds %q (%v), this script wrote %q", b, err, sp.Token))
				}
				if cwd := ts.MkAbs("."); cwd != filepath.Join(work, "sub-"+sp.Token) {
					problem(name, fmt.Sprintf("current directory is %s, this script changed to sub-%s", cwd, sp.Token))
				}
				filepath.Walk(work, func(pth string, info os.FileInfo, err error) error {
					if err != nil {
						return nil
					}
					for _, o := range c.Spec.Scripts {
						if o.Token != sp.Token && strings.Contains(filepath.Base(pth), o.Token) {
							problem(name, fmt.Sprintf("work directory contains %s which belongs to script %s", pth, o.Name))
						}
					}
					return nil
				})
				if got := len(ts.BackgroundCmds()); got != sp.Jobs {
					problem(name, fmt.Sprintf("BackgroundCmds() has %d entries, this script started %d", got, sp.Jobs))
				}
				for _, c := range ts.BackgroundCmds() {
					if !strings.Contains(strings.Join(c.Args, " "), sp.Token) {
						problem(name, fmt.Sprintf("BackgroundCmds() contains a process of another script: %v", c.Args))
					}
				}
			},
		},
	}
	switch c.Spec.Retention {
	case "testwork":
		p.TestWork = true
	case "workdirroot":
		p.WorkdirRoot = c.Spec.WorkRoot
	}
	switch c.Spec.Retention {
	case "testwork":
		p.TestWork = true
	case "workdirroot":
		p.WorkdirRoot = c.Spec.WorkRoot
	}
	return p
}

// Write stores the results; verdicts must have been filled in by the back-end.
func (c *Collector) Write(escapes []string) error {
	var out BatchResult
	c.mu.Lock()
	var names []string
	for n := range c.res {
		names = append(names, n)
	}
	sort.Strings(names)
	for _, n := range names {
		out.Scripts = append(out.Scripts, *c.res[n])
	}
	c.mu.Unlock()
	out.Escapes = escapes
	out.RendezvousComplete = int(atomic.LoadInt32(&c.complete))
	out.OverlapEnds = int(atomic.LoadInt32(&c.overlapEnds))
	jb, _ := json.Marshal(&out)
	return os.WriteFile(c.Spec.Out, jb, 0o666)
}

var _ = time.Now
var _ = filepath.Join
var _ = hex.EncodeToString
var _ = fmt.Sprint
var _ = strings.TrimSpace

// TreeSum is how snaptree lists a file's content: length and the first bytes of its SHA-256.
func TreeSum(b []byte) string {
	h := sha256.Sum256(b)
	return fmt.Sprintf("%d:%x", len(b), h[:6])
}
