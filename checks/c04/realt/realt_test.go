// Package realt is the second back-end of the C04 batch process: the batch is run by the real
// testscript.Run on a real *testing.T (with the real t.Parallel / t.Run / t.Skip / t.FailNow semantics).
// The parent check parses this binary's -test.v output for the per-script verdicts.
package realt

import (
	"os"
	"testing"

	"github.com/rogpeppe/go-internal/testscript"

	"verif/checks/c04/batch"
	"verif/tsh"
)

func TestMain(m *testing.M) {
	testscript.Main(m, map[string]func(){"vhelper": tsh.HelperMain})
}

func TestBatch(t *testing.T) {
	specPath := os.Getenv("C04_BATCH")
	if specPath == "" {
		t.Skip("no batch description")
	}
	c, err := batch.Load(specPath)
	if err != nil {
		t.Fatal(err)
	}
	os.Setenv("VERIF_CANARY", "host-secret")
	// Cleanup functions of the parent run after every (parallel) subtest has finished.
	t.Cleanup(func() { c.Write(nil) })
	testscript.Run(t, c.Params())
}
