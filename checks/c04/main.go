// C04: testscript runs are isolated from each other and leave nothing behind.
// Oracle: direct observation against expectations computed from the batch
// description: listing of $WORK at the first line, environment names seen by a
// real child process (host canary must be absent), per-script ownership probes
// after a rendezvous at which all parallel scripts overlap, defer order log,
// liveness of every helper pid after the batch process has gone, contents of
// a private GOTMPDIR / WorkdirRoot afterwards, parallel-vs-sequential
// differential, Go race detector. Batches run in a process of their own, as
// uid 65534 (so that read-only trees really resist removal) or as root.
package main

import (
	"encoding/json"
	"fmt"
	"math/rand"
	"os"
	"os/exec"
	"path/filepath"
	"regexp"
	"sort"
	"strings"
	"syscall"
	"time"

	"github.com/rogpeppe/go-internal/testscript"

	"verif/checks/c04/batch"
	"verif/tsh"
	"verif/vlib"
)

type scriptSpec = batch.ScriptSpec
type batchSpec = batch.BatchSpec
type scriptResult = batch.ScriptResult
type batchResult = batch.BatchResult

// ---------- batch process (recording T back-end) ----------

func runBatch(specPath string) int {
	c, err := batch.Load(specPath)
	if err != nil {
		fmt.Fprintln(os.Stderr, err)
		return 2
	}
	spec := c.Spec
	p := c.Params()
	root := tsh.NewRoot(tsh.Style(spec.Style), false, spec.Parallel)
	root.Run("batch", func(t testscript.T) { testscript.RunT(t, p) })
	if len(root.Subs) > 0 {
		root.Subs[0].Release()
	}
	root.Release()
	if len(root.Subs) > 0 {
		for _, sub := range root.Subs[0].Subs {
			r := c.Get(sub.Name)
			c.Lock()
			r.Verdict = sub.Verdict()
			r.EndMono = sub.EndMono
			lg := sub.LogText()
			if len(lg) > 1500 {
				lg = lg[len(lg)-1500:]
			}
			r.Log = lg
			c.Unlock()
		}
	}
	c.Write(tsh.PanicEscapes.List())
	return 0
}

// ---------- generator ----------

var endings = []string{"pass", "pass", "fail", "skip", "stop", "setupfail", "fail-early", "fail-wait", "tskip", "tfail"}

func genBatch(r *rand.Rand, dir string, idx int) batchSpec {
	n := 2 + r.Intn(11)
	spec := batchSpec{PidDir: filepath.Join(dir, "pids")}
	os.MkdirAll(spec.PidDir, 0o777)
	os.Chmod(spec.PidDir, 0o777)
	used := map[string]int{}
	for i := 0; i < n; i++ {
		tok := fmt.Sprintf("tok%dx%dz", idx, i)
		base := []string{"alpha", "beta", "gamma", "foo", "foo", "foo#1", "delta"}[r.Intn(7)]
		sub := filepath.Join(dir, fmt.Sprintf("in%d", i))
		os.MkdirAll(sub, 0o777)
		file := filepath.Join(sub, base+[]string{".txt", ".txtar"}[r.Intn(2)])
		// the name RunT gives: base, de-duplicated with #N
		name := base
		for k := 1; used[name] > 0; k++ {
			name = fmt.Sprintf("%s#%d", base, k)
		}
		used[name]++
		sp := scriptSpec{File: file, Name: name, Token: tok, Ending: endings[r.Intn(len(endings))]}
		var sb strings.Builder
		mark := 0
		// in half of the scripts that fail anyway, the second deferred function itself fails (Fatalf)
		abortingDefer := (sp.Ending == "fail" || sp.Ending == "fail-wait") && r.Intn(2) == 0
		addMark := func() {
			mark++
			if abortingDefer && mark == 2 {
				fmt.Fprintf(&sb, "defer-mark %d abort\n", mark)
			} else {
				fmt.Fprintf(&sb, "defer-mark %d\n", mark)
			}
			sp.Marks = append(sp.Marks, mark)
		}
		sb.WriteString("snaptree\n")
		// the child's environment, seen by a program found through PATH or named by an explicit path
		sb.WriteString([]string{"exec vhelper environ\ngrabenv\n", "exec $VHELPER environ\ngrabenv\n", "exec vhelper environ\ngrabenv\nexec $VHELPER environ\ngrabenv\n"}[r.Intn(3)])
		addMark()
		if sp.Ending == "fail-early" {
			sb.WriteString("exists no-such-file-early\n")
		}
		fmt.Fprintf(&sb, "env OWNER=%s\nexec vhelper out %s\ncp stdout owner.txt\nmkdir sub-%s\ncd sub-%s\n", tok, tok, tok, tok)
		if r.Intn(2) == 0 {
			fmt.Fprintf(&sb, "[exec:vhelper] exec vhelper touch made-%s\n[!exec:definitely-not-there] mkdir d-%s\n", tok, tok)
		}
		addMark()
		jobs := r.Intn(4)
		if sp.Ending == "fail-wait" {
			jobs = 0 // a plain wait would block on them: this ending starts its own jobs
		}
		// tskip / tfail: a custom command ends the run through the script's T directly (Skip / FailNow, as a
		// helper that was handed env.T() does) while jobs are running, one of them slow to die
		tAbort := sp.Ending == "tskip" || sp.Ending == "tfail"
		if tAbort && jobs == 0 {
			jobs = 1
		}
		// a named job that ends by itself, started before the others and waited for by name while they are
		// still running: the others stay this run's to stop and reap
		namedFirst := jobs > 0 && r.Intn(2) == 0
		if namedFirst {
			fmt.Fprintf(&sb, "exec vhelper exit 0 first-%s &first&\n", tok)
		}
		for j := 0; j < jobs; j++ {
			pf := filepath.Join(spec.PidDir, fmt.Sprintf("%s-%d", tok, j))
			if (r.Intn(3) == 0 && sp.Ending != "skip") || (tAbort && j == 0) {
				// slow to die: exits 150 ms after the interrupt (status depends on timing: never used before skip)
				fmt.Fprintf(&sb, "exec vhelper slowint %s 150 &\n", pf)
			} else {
				fmt.Fprintf(&sb, "! exec vhelper block %s &\n", pf)
			}
		}
		if namedFirst {
			sb.WriteString("wait first\n")
		}
		sp.Jobs = jobs
		sb.WriteString("rendezvous\ncheckown\n")
		// a big tree: removing this work directory takes a while, so that ends of runs overlap with removals
		if spec.BigName == "" && r.Intn(3) == 0 && (sp.Ending == "pass" || sp.Ending == "stop") {
			fmt.Fprintf(&sb, "exec vhelper mktree big-%s 400\n", tok)
			spec.BigName, spec.BigToken = name, tok
		}
		// a non-empty directory that its owner cannot even read (removal has to make it accessible first)
		if r.Intn(3) == 0 {
			fmt.Fprintf(&sb, "mkdir un-%s/deep\nexec vhelper touch un-%s/deep/f\nchmod %s un-%s/deep\n", tok, tok, []string{"000", "100", "200", "300"}[r.Intn(4)], tok)
		}
		// read-only trees
		if r.Intn(2) == 0 {
			fmt.Fprintf(&sb, "mkdir ro-%s/deep\nexec vhelper touch ro-%s/deep/f ro-%s/g\nchmod 444 ro-%s/deep/f ro-%s/g\nchmod 555 ro-%s/deep\nchmod 555 ro-%s\n", tok, tok, tok, tok, tok, tok, tok)
		}
		addMark()
		sb.WriteString("endgate\n")
		switch sp.Ending {
		case "fail-wait":
			// a plain wait that fails on an early job while later jobs are still running:
			// the run ends there and must still stop and reap the later ones
			fmt.Fprintf(&sb, "exec vhelper exit 1 early-%s &\n", tok)
			for j := 0; j < 2; j++ {
				fmt.Fprintf(&sb, "exec vhelper block %s &\n", filepath.Join(spec.PidDir, fmt.Sprintf("%s-w%d", tok, j)))
			}
			sb.WriteString("wait\n")
		case "fail":
			if r.Intn(3) == 0 {
				// the failing line is a background start under a name that a live job still holds: nothing
				// may be started by it (a process started there is in no list and would outlive the run)
				fmt.Fprintf(&sb, "! exec vhelper block %s &dup&\n", filepath.Join(spec.PidDir, fmt.Sprintf("%s-d0", tok)))
				fmt.Fprintf(&sb, "exec vhelper block %s &dup&\n", filepath.Join(spec.PidDir, fmt.Sprintf("%s-d1", tok)))
			} else {
				sb.WriteString("exists no-such-file\n")
			}
		case "tskip":
			sb.WriteString("t-abort skip\n")
		case "tfail":
			sb.WriteString("t-abort fail\n")
		case "skip":
			sb.WriteString("skip 'not now'\n")
		case "stop":
			sb.WriteString("stop\n")
		}
		sb.WriteString("mkdir never-reached-unless-pass\n")
		// archive
		ents := []string{"data.txt", "nested/inner.txt"}
		if r.Intn(2) == 0 {
			ents = append(ents, "more/x/y.txt")
		}
		var conts []string
		for _, e := range ents {
			conts = append(conts, fmt.Sprintf("content of %s for %s\n", e, tok))
		}
		// the same path twice (RequireUniqueNames is off: the later entry wins), the later one
		// shorter, longer or empty, spelled identically or through a ".." that cleans to it
		if r.Intn(3) == 0 {
			k := r.Intn(len(ents))
			spelled := ents[k]
			if r.Intn(2) == 0 {
				spelled = "nested/../" + ents[k]
			}
			ents = append(ents, spelled)
			conts = append(conts, []string{"short\n", "", conts[k] + "and a second, longer version of it\n", "x\n"}[r.Intn(4)])
		}
		for i, e := range ents {
			fmt.Fprintf(&sb, "-- %s --\n%s", e, conts[i])
		}
		sp.Entries = ents
		sp.Contents = conts
		if sp.Ending == "setupfail" {
			sp.SetupFail = true
			sp.Marks = nil
			sp.Jobs = 0
		}
		if sp.Ending == "fail-early" {
			sp.Marks = sp.Marks[:1]
			sp.Jobs = 0
		}
		os.WriteFile(file, []byte(sb.String()), 0o666)
		spec.Scripts = append(spec.Scripts, sp)
	}
	for _, s := range spec.Scripts {
		if s.Ending != "setupfail" && s.Ending != "fail-early" {
			spec.Arrivals++
		}
	}
	spec.Retention = []string{"", "", "testwork", "workdirroot"}[r.Intn(4)]
	spec.Style = r.Intn(2)
	return spec
}

func expectedTree(sp scriptSpec) []string {
	set := map[string]bool{".tmp": true}
	files := map[string]string{}
	for i, e := range sp.Entries {
		e = filepath.Clean(e)
		files[e] = sp.Contents[i] // a later entry of the same path wins
		for d := filepath.Dir(e); d != "."; d = filepath.Dir(d) {
			set[d] = true
		}
	}
	var l []string
	for k := range set {
		l = append(l, k)
	}
	for k, c := range files {
		l = append(l, k+"="+batch.TreeSum([]byte(c)))
	}
	sort.Strings(l)
	return l
}

var wantEnv = []string{"$", "/", ":", "GORACE", "GOTRACEBACK", "HOME", "PATH", "PWD", "SETUPVAR", "TMPDIR", "VHELPER", "WORK", "devnull", "exe"}

type ccase struct {
	Kind   string     `json:"kind"`
	Batch  int        `json:"batch"`
	Mode   string     `json:"mode"`
	Uid    int        `json:"uid"`
	Script string     `json:"script"`
	Detail string     `json:"detail"`
	Spec   *batchSpec `json:"batch_spec,omitempty"`
	Log    string     `json:"log,omitempty"`
}

func main() {
	if filepath.Base(os.Args[0]) == "vhelper" {
		// the copy of this binary that testscript.Main installed in $PATH, run by a script
		testscript.Main(batchRunner{""}, map[string]func(){"vhelper": tsh.HelperMain})
		return
	}
	if spec := os.Getenv("C04_BATCH"); spec != "" {
		// batch process: enter through the real testscript.Main so that vhelper is installed in $PATH
		testscript.Main(batchRunner{spec}, map[string]func(){"vhelper": tsh.HelperMain})
		return
	}
	vlib.Main("C04", "exploration", 12*time.Minute, func(r *vlib.Run) {
		r.Rule("batches of 2-12 generated scripts per RunT call (explicit files incl. duplicate base names from different directories), each script: listing of $WORK first, child-process environment (program found through PATH or named by an explicit path), own variable / file / sub-directory / background jobs (SIGINT-terminable and slow-to-die), a rendezvous at which all parallel scripts overlap, ownership re-check, read-only trees (0555/0444), three defer marks; endings pass / Skip or FailNow called on the script's T by a custom command while a slow-to-die job runs / fail early / fail late (a missing file, or a background start under a name a live job still holds) / failing plain wait with later jobs still running / skip / stop / failing Setup; retention none / TestWork / WorkdirRoot; both T styles; every batch runs twice (parallel with subtests released after RunT returned, and one script at a time) with a recording T, and every second batch a third time on the real *testing.T (a test binary built from checks/c04/realt), each in a process of its own as uid 65534 or root. Non-trivial/distinct = distinct (ending multiset, retention, mode, uid) batches in which the rendezvous completed.")
		r.Assume("grandchildren of started processes are not tracked; background helpers always die on SIGINT (possibly 150 ms late)")
		base := vlib.Scratch()
		os.Chmod(base, 0o777)
		// the batch processes may run as uid 65534: give them a copy of this binary in a place they can reach
		// whatever the permissions of the directory this check was built in
		batchBin := filepath.Join(base, "c04batch")
		if b, err := os.ReadFile(os.Args[0]); err != nil || os.WriteFile(batchBin, b, 0o755) != nil {
			r.Inconclusive("cannot copy the check binary into the scratch directory")
			return
		}
		os.Chmod(batchBin, 0o755)
		realBin := filepath.Join(base, "c04realt.test")
		if b, err := os.ReadFile(filepath.Join(os.Getenv("VERIF_BUILD"), "realt.test")); err != nil || os.WriteFile(realBin, b, 0o755) != nil {
			r.Inconclusive("cannot copy the real-testing.T back-end into the scratch directory")
			return
		}
		os.Chmod(realBin, 0o755)
		rng := r.Rand("batches")
		nb := r.Pick(40, 600)
		racePrefix := filepath.Join(base, "race")
		seen := map[string]int{}
		var nScripts, nRendez, nRealT, nOverlapEnds int
		report := func(kind string, c ccase) {
			seen[kind]++
			if seen[kind] > 3 {
				return
			}
			r.Violation(fmt.Sprintf("%s batch=%d mode=%s uid=%d script=%s seed=%d", kind, c.Batch, c.Mode, c.Uid, c.Script, r.Seed), kind+": "+c.Detail, c)
		}
		timeouts := 0
		for bi := 0; bi < nb; bi++ {
			// three reports are a refutation: more batches only repeat it (and a change that loses GORACE makes
			// every helper sleep a second at exit, so going on can take the whole budget)
			if timeouts >= 2 || r.Violations() >= 3 {
				r.Set("stopped_early", fmt.Sprintf("after %d batch timeouts / %d violations", timeouts, r.Violations()))
				break
			}
			dir := filepath.Join(base, fmt.Sprintf("batch%d", bi))
			os.MkdirAll(dir, 0o777)
			os.Chmod(dir, 0o777)
			spec := genBatch(rng, dir, bi)
			uid := 0
			if bi%3 != 2 {
				uid = 65534
			}
			results := map[string]*batchResult{}
			modes := []string{"parallel", "sequential"}
			if bi%2 == 0 {
				modes = append(modes, "realT") // the same batch on the real *testing.T
			}
			for _, mode := range modes {
				spec.Parallel = mode != "sequential"
				gotmp := filepath.Join(dir, "gotmp-"+mode)
				tmp := filepath.Join(dir, "tmp-"+mode)
				spec.WorkRoot = filepath.Join(dir, "workroot-"+mode)
				for _, d := range []string{gotmp, tmp, spec.WorkRoot} {
					os.MkdirAll(d, 0o777)
					os.Chmod(d, 0o777)
				}
				spec.Out = filepath.Join(dir, "result-"+mode+".json")
				os.Remove(spec.Out)
				sb, _ := json.Marshal(&spec)
				specPath := filepath.Join(dir, "spec-"+mode+".json")
				os.WriteFile(specPath, sb, 0o666)
				filepath.Walk(dir, func(p string, info os.FileInfo, err error) error {
					if err == nil && info.IsDir() && strings.HasPrefix(filepath.Base(p), "in") {
						os.Chmod(p, 0o777)
					}
					return nil
				})
				cmd := exec.Command(batchBin)
				if mode == "realT" {
					cmd = exec.Command(realBin, "-test.run", "^TestBatch$", "-test.v", "-test.parallel", "16", "-test.timeout", "3m")
				}
				cmd.Env = []string{"PATH=" + os.Getenv("PATH"), "HOME=/nonexistent", "GOTMPDIR=" + gotmp, "TMPDIR=" + tmp, "C04_BATCH=" + specPath,
					fmt.Sprintf("GOMAXPROCS=%d", []int{1, 4, 16}[(bi+len(mode))%3]), vlib.RaceEnv(racePrefix) + " atexit_sleep_ms=0"}
				if uid != 0 {
					cmd.SysProcAttr = &syscall.SysProcAttr{Credential: &syscall.Credential{Uid: uint32(uid), Gid: uint32(uid)}}
				}
				errf, _ := os.Create(filepath.Join(dir, "stderr-"+mode))
				cmd.Stdout, cmd.Stderr = errf, errf
				done := make(chan error, 1)
				if err := cmd.Start(); err != nil {
					r.Inconclusive("cannot start batch process: " + err.Error())
					continue
				}
				go func() { done <- cmd.Wait() }()
				select {
				case <-done:
				case <-time.After(150 * time.Second):
					cmd.Process.Signal(syscall.SIGQUIT)
					<-done
					eb, _ := os.ReadFile(filepath.Join(dir, "stderr-"+mode))
					os.WriteFile(filepath.Join(vlib.VerifDir, ".build", "C04", fmt.Sprintf("batch-timeout-%d-%s.txt", bi, mode)), eb, 0o644)
					r.Inconclusive(fmt.Sprintf("batch %d (%s) did not finish within 150 seconds (goroutine dump kept under .build/C04/)", bi, mode))
					timeouts++
				}
				errf.Close()
				var br batchResult
				if b, err := os.ReadFile(spec.Out); err != nil {
					eb, _ := os.ReadFile(filepath.Join(dir, "stderr-"+mode))
					r.Inconclusive(fmt.Sprintf("batch %d (%s) wrote no result: %s", bi, mode, tailS(string(eb), 600)))
					continue
				} else {
					json.Unmarshal(b, &br)
				}
				if mode == "realT" {
					// verdicts come from the test binary's own -test.v report
					eb, _ := os.ReadFile(filepath.Join(dir, "stderr-"+mode))
					verdicts := map[string]string{}
					for _, m := range realVerdict.FindAllStringSubmatch(string(eb), -1) {
						verdicts[m[2]] = map[string]string{"PASS": "pass", "FAIL": "fail", "SKIP": "skip"}[m[1]]
					}
					seenNames := map[string]bool{}
					for i := range br.Scripts {
						br.Scripts[i].Verdict = verdicts[br.Scripts[i].Name]
						if br.Scripts[i].Verdict == "" {
							br.Scripts[i].Verdict = "unfinished"
						}
						br.Scripts[i].Log = tailS(string(eb), 1500)
						seenNames[br.Scripts[i].Name] = true
					}
					for n, v := range verdicts {
						if !seenNames[n] {
							br.Scripts = append(br.Scripts, scriptResult{Name: n, Verdict: v})
						}
					}
					nRealT++
				}
				results[mode] = &br
				mk := func(kind, script, detail, log string) {
					s := spec
					report(kind, ccase{kind, bi, mode, uid, script, detail, &s, log})
				}
				for _, e := range br.Escapes {
					mk("panic-escaped-subtest", "", e, "")
				}
				byName := map[string]*scriptResult{}
				for i := range br.Scripts {
					byName[br.Scripts[i].Name] = &br.Scripts[i]
				}
				if spec.Parallel && br.RendezvousComplete == 1 {
					nRendez++
				}
				nOverlapEnds += br.OverlapEnds
				for _, sp := range spec.Scripts {
					r.Eval(1)
					nScripts++
					sr := byName[sp.Name]
					if sr == nil {
						mk("script-not-run", sp.Name, "RunT produced no subtest named "+sp.Name, "")
						continue
					}
					if sr.Verdict == "unfinished" {
						mk("subtest-unfinished", sp.Name, "the subtest never finished", sr.Log)
						continue
					}
					for _, p := range sr.Problems {
						mk("interference", sp.Name, p, sr.Log)
					}
					if !sp.SetupFail {
						if want := expectedTree(sp); strings.Join(sr.Tree, "|") != strings.Join(want, "|") {
							mk("work-directory-not-fresh", sp.Name, fmt.Sprintf("at its first line $WORK holds %v, the archive has %v", sr.Tree, want), sr.Log)
						}
						if strings.Join(sr.EnvNames, "|") != strings.Join(wantEnv, "|") {
							mk("environment-not-from-scratch", sp.Name, fmt.Sprintf("child process sees variables %v, documented set is %v", sr.EnvNames, wantEnv), sr.Log)
						}
					}
					// deferred functions: all registered ones, in reverse order (Setup's mark 0 last)
					want := []int{}
					for i := len(sp.Marks) - 1; i >= 0; i-- {
						want = append(want, sp.Marks[i])
					}
					want = append(want, 0)
					if fmt.Sprint(sr.Defers) != fmt.Sprint(want) {
						mk("deferred-functions", sp.Name, fmt.Sprintf("deferred functions ran as %v, registered order demands %v (ending %s)", sr.Defers, want, sp.Ending), sr.Log)
					}
					wantV := map[string]string{"pass": "pass", "fail": "fail", "fail-early": "fail", "fail-wait": "fail", "skip": "skip", "stop": "pass", "setupfail": "fail", "tskip": "skip", "tfail": "fail"}[sp.Ending]
					if sr.Verdict != wantV {
						mk("wrong-verdict", sp.Name, fmt.Sprintf("ending %q must be reported as %s, got %s", sp.Ending, wantV, sr.Verdict), sr.Log)
					}
				}
				// processes: every helper that recorded its pid must be gone
				pfs, _ := filepath.Glob(filepath.Join(spec.PidDir, "*"))
				for _, pf := range pfs {
					if strings.Contains(filepath.Base(pf), ".tmp") {
						continue // a marker file a helper was stopped while writing
					}
					if strings.HasSuffix(pf, ".exit") {
						// a slow-to-die helper recorded when it was about to exit: that must be before its run ended
						b, _ := os.ReadFile(pf)
						var tExit int64
						fmt.Sscan(string(b), &tExit)
						tok := strings.SplitN(filepath.Base(pf), "-", 2)[0]
						for _, sp := range spec.Scripts {
							if sp.Token == tok && byName[sp.Name] != nil && byName[sp.Name].EndMono != 0 && tExit > byName[sp.Name].EndMono {
								mk("run-ended-before-its-process-exited", sp.Name, fmt.Sprintf("the run of %s ended %v before its (slow to die) background process was gone", sp.Name, time.Duration(tExit-byName[sp.Name].EndMono)), byName[sp.Name].Log)
							}
						}
						os.Remove(pf)
						continue
					}
					if strings.HasSuffix(pf, ".quit") {
						continue
					}
					if pid, alive := tsh.PidAlive(pf); alive {
						mk("process-left-alive", filepath.Base(pf), fmt.Sprintf("helper process %d (%s) is still alive after the run ended", pid, filepath.Base(pf)), "")
						syscall.Kill(pid, syscall.SIGKILL)
					}
					os.Remove(pf)
				}
				// directories
				left := listAll(gotmp)
				switch spec.Retention {
				case "":
					if len(left) != 0 {
						mk("temporary-files-left-behind", "", fmt.Sprintf("GOTMPDIR is not empty after the run: %v", head(left, 8)), "")
					}
					if l := listAll(spec.WorkRoot); len(l) != 0 {
						mk("temporary-files-left-behind", "", fmt.Sprintf("unused WorkdirRoot got content: %v", head(l, 8)), "")
					}
				case "testwork":
					tops, _ := filepath.Glob(filepath.Join(gotmp, "*"))
					if len(tops) != 1 || !strings.HasPrefix(filepath.Base(tops[0]), "go-test-script") {
						mk("retained-work-directories", "", fmt.Sprintf("with TestWork GOTMPDIR must hold exactly one go-test-script* directory, has %v", tops), "")
						break
					}
					checkRetained(tops[0], spec, mk)
				case "workdirroot":
					if len(left) != 0 {
						mk("temporary-files-left-behind", "", fmt.Sprintf("with WorkdirRoot GOTMPDIR must stay empty, has %v", head(left, 8)), "")
					}
					checkRetained(spec.WorkRoot, spec, mk)
				}
				forceRemove(gotmp)
				forceRemove(spec.WorkRoot)
				forceRemove(tmp)
			}
			// parallel = sequential
			for _, pair := range [][2]string{{"parallel", "sequential"}, {"realT", "sequential"}} {
				p, s := results[pair[0]], results[pair[1]]
				if p == nil || s == nil {
					continue
				}
				pm := map[string]scriptResult{}
				for _, x := range p.Scripts {
					pm[x.Name] = x
				}
				for _, y := range s.Scripts {
					x, ok := pm[y.Name]
					if !ok {
						continue
					}
					if x.Verdict != y.Verdict || fmt.Sprint(x.Tree) != fmt.Sprint(y.Tree) || fmt.Sprint(x.EnvNames) != fmt.Sprint(y.EnvNames) || fmt.Sprint(x.Defers) != fmt.Sprint(y.Defers) {
						sc := spec
						report("parallel-differs-from-sequential", ccase{"parallel-differs-from-sequential", bi, pair[0] + "+sequential", uid, y.Name,
							fmt.Sprintf("script %s: "+pair[0]+" run gave (%s, tree %v, env %v, defers %v), one-at-a-time run gave (%s, %v, %v, %v)", y.Name, x.Verdict, x.Tree, x.EnvNames, x.Defers, y.Verdict, y.Tree, y.EnvNames, y.Defers), &sc, x.Log})
					}
				}
			}
			var ends []string
			for _, s := range spec.Scripts {
				ends = append(ends, s.Ending)
			}
			sort.Strings(ends)
			r.Distinct(fmt.Sprintf("%v|%s|%d", ends, spec.Retention, uid))
			if bi == 0 {
				t, _ := os.ReadFile(spec.Scripts[0].File)
				r.Sample(map[string]any{"kind": "script", "ending": spec.Scripts[0].Ending, "text": string(t), "batch_size": len(spec.Scripts), "retention": spec.Retention})
			}
			forceRemove(dir)
		}
		r.Set("batches", nb)
		r.Set("script_runs", nScripts)
		r.Set("script_ends_orchestrated_to_overlap_a_removal", nOverlapEnds)
		r.Set("batches_also_run_on_the_real_testing_T", nRealT)
		r.Set("parallel_batches_with_complete_rendezvous", nRendez)
		r.ReportRaces(racePrefix)
		if nRendez < nb/2 {
			r.Inconclusive(fmt.Sprintf("the rendezvous completed in only %d of %d parallel batches: scripts did not overlap", nRendez, nb))
		}
	})
}

var realVerdict = regexp.MustCompile(`(?m)^\s*--- (PASS|FAIL|SKIP): TestBatch/(\S+) \(`)

type batchRunner struct{ spec string }

func (b batchRunner) Run() int {
	if b.spec == "" {
		return 2
	}
	return runBatch(b.spec)
}

func checkRetained(root string, spec batchSpec, mk func(kind, script, detail, log string)) {
	ents, _ := os.ReadDir(root)
	got := map[string]bool{}
	for _, e := range ents {
		got[e.Name()] = true
	}
	for _, s := range spec.Scripts {
		if !got["script-"+s.Name] {
			mk("retained-work-directories", s.Name, fmt.Sprintf("retention was requested but script-%s is missing under %s (has %v)", s.Name, root, keys(got)), "")
		}
		delete(got, "script-"+s.Name)
	}
	if len(got) > 0 {
		mk("retained-work-directories", "", fmt.Sprintf("unexpected entries next to the retained work directories: %v", keys(got)), "")
	}
}

func keys(m map[string]bool) []string {
	var k []string
	for x := range m {
		k = append(k, x)
	}
	sort.Strings(k)
	return k
}

func listAll(root string) []string {
	var l []string
	filepath.Walk(root, func(p string, info os.FileInfo, err error) error {
		if err == nil && p != root {
			l = append(l, strings.TrimPrefix(p, root+"/"))
		}
		return nil
	})
	return l
}

func head(l []string, n int) []string {
	if len(l) > n {
		return l[:n]
	}
	return l
}

func forceRemove(dir string) {
	filepath.Walk(dir, func(p string, info os.FileInfo, err error) error {
		if err == nil && info.IsDir() {
			os.Chmod(p, 0o777)
		}
		return nil
	})
	os.RemoveAll(dir)
}

func tailS(s string, n int) string {
	if len(s) > n {
		return s[len(s)-n:]
	}
	return s
}
