// C04: testscript runs are isolated from each other and leave nothing behind.
// Oracle: direct observation against expectations computed from the batch
// description: listing of $WORK at the first line, environment names seen by a
// real child process (host canary must be absent), per-script ownership probes
// after a rendezvous at which all parallel scripts overlap, defer order log,
// liveness of every helper pid after the batch process has gone, contents of
// a private GOTMPDIR / WorkdirRoot afterwards, parallel-vs-sequential
// differential, Go race detector. Batches run in a process of their own, as
// uid 65534 (so that read-only trees really resist removal) or as root.
package main

import (
	"encoding/hex"
	"encoding/json"
	"fmt"
	"math/rand"
	"os"
	"os/exec"
	"path/filepath"
	"sort"
	"strings"
	"sync"
	"sync/atomic"
	"syscall"
	"time"

	"github.com/rogpeppe/go-internal/testscript"

	"verif/tsh"
	"verif/vlib"
)

type scriptSpec struct {
	File      string `json:"file"`
	Name      string `json:"name"` // subtest name RunT must use
	Token     string `json:"token"`
	SetupFail bool   `json:"setup_fail"`
	Ending    string `json:"ending"`
	Marks     []int  `json:"marks"` // defer marks that are registered before the script ends
	Entries   []string `json:"entries"`
	Jobs      int    `json:"jobs"`
}

type batchSpec struct {
	Scripts   []scriptSpec `json:"scripts"`
	Parallel  bool         `json:"parallel"`
	Retention string       `json:"retention"` // "", "testwork", "workdirroot"
	WorkRoot  string       `json:"workroot"`
	PidDir    string       `json:"piddir"`
	Style     int          `json:"style"`
	Out       string       `json:"out"`
	Arrivals  int          `json:"arrivals"`
}

type scriptResult struct {
	Name     string   `json:"name"`
	Verdict  string   `json:"verdict"`
	Tree     []string `json:"tree"`
	EnvNames []string `json:"env_names"`
	Problems []string `json:"problems"`
	Defers   []int    `json:"defers"`
	Log      string   `json:"log"`
	EndMono  int64    `json:"end_mono"`
}

type batchResult struct {
	Scripts []scriptResult `json:"scripts"`
	Escapes []string       `json:"panic_escapes"`
	RendezvousComplete int `json:"rendezvous_complete"`
}

// ---------- batch process ----------

func runBatch(specPath string) int {
	b, err := os.ReadFile(specPath)
	if err != nil {
		fmt.Fprintln(os.Stderr, err)
		return 2
	}
	var spec batchSpec
	json.Unmarshal(b, &spec)
	byName := map[string]*scriptSpec{}
	for i := range spec.Scripts {
		byName[spec.Scripts[i].Name] = &spec.Scripts[i]
	}
	var mu sync.Mutex
	res := map[string]*scriptResult{}
	get := func(name string) *scriptResult {
		mu.Lock()
		defer mu.Unlock()
		if res[name] == nil {
			res[name] = &scriptResult{Name: name}
		}
		return res[name]
	}
	problem := func(name, p string) {
		r := get(name)
		mu.Lock()
		r.Problems = append(r.Problems, p)
		mu.Unlock()
	}
	var arrived int32
	var complete int32
	os.Setenv("VERIF_CANARY", "host-secret")
	var files []string
	for _, s := range spec.Scripts {
		files = append(files, s.File)
	}
	nameOf := func(workdir string) string { return strings.TrimPrefix(filepath.Base(workdir), "script-") }
	p := testscript.Params{
		Files: files,
		Setup: func(env *testscript.Env) error {
			name := nameOf(env.WorkDir)
			sp := byName[name]
			env.Defer(func() { r := get(name); mu.Lock(); r.Defers = append(r.Defers, 0); mu.Unlock() })
			env.Vars = append(env.Vars, "SETUPVAR="+name)
			if sp != nil && sp.SetupFail {
				return fmt.Errorf("setup refuses %s", name)
			}
			return nil
		},
		Cmds: map[string]func(ts *testscript.TestScript, neg bool, args []string){
			"snaptree": func(ts *testscript.TestScript, neg bool, args []string) {
				work := ts.Getenv("WORK")
				var l []string
				filepath.Walk(work, func(pth string, info os.FileInfo, err error) error {
					if err == nil && pth != work {
						rel, _ := filepath.Rel(work, pth)
						l = append(l, rel)
					}
					return nil
				})
				sort.Strings(l)
				r := get(ts.Name())
				mu.Lock()
				r.Tree = l
				mu.Unlock()
			},
			"grabenv": func(ts *testscript.TestScript, neg bool, args []string) {
				var names []string
				for _, l := range strings.Fields(ts.ReadFile("stdout")) {
					b, _ := hex.DecodeString(l)
					n, v, _ := strings.Cut(string(b), "=")
					names = append(names, n)
					if strings.Contains(v, "host-secret") || n == "VERIF_CANARY" {
						problem(ts.Name(), "the host variable VERIF_CANARY is visible to the script's child process")
					}
					if n == "SETUPVAR" && v != ts.Name() {
						problem(ts.Name(), fmt.Sprintf("SETUPVAR=%q belongs to another script", v))
					}
				}
				sort.Strings(names)
				r := get(ts.Name())
				mu.Lock()
				r.EnvNames = names
				mu.Unlock()
			},
			"defer-mark": func(ts *testscript.TestScript, neg bool, args []string) {
				var n int
				fmt.Sscan(args[0], &n)
				name := ts.Name()
				ts.Defer(func() { r := get(name); mu.Lock(); r.Defers = append(r.Defers, n); mu.Unlock() })
			},
			"rendezvous": func(ts *testscript.TestScript, neg bool, args []string) {
				if !spec.Parallel {
					return
				}
				atomic.AddInt32(&arrived, 1)
				deadline := time.Now().Add(20 * time.Second)
				for atomic.LoadInt32(&arrived) < int32(spec.Arrivals) && time.Now().Before(deadline) {
					time.Sleep(time.Millisecond)
				}
				if atomic.LoadInt32(&arrived) >= int32(spec.Arrivals) {
					atomic.StoreInt32(&complete, 1)
				}
			},
			"checkown": func(ts *testscript.TestScript, neg bool, args []string) {
				name := ts.Name()
				sp := byName[name]
				if sp == nil {
					problem(name, "unknown script name "+name)
					return
				}
				if v := ts.Getenv("OWNER"); v != sp.Token {
					problem(name, fmt.Sprintf("variable OWNER is %q, this script set %q", v, sp.Token))
				}
				work := ts.Getenv("WORK")
				if b, err := os.ReadFile(filepath.Join(work, "owner.txt")); err != nil || strings.TrimSpace(string(b)) != sp.Token {
					problem(name, fmt.Sprintf("owner.txt holds %q (%v), this script wrote %q", b, err, sp.Token))
				}
				if cwd := ts.MkAbs("."); cwd != filepath.Join(work, "sub-"+sp.Token) {
					problem(name, fmt.Sprintf("current directory is %s, this script changed to sub-%s", cwd, sp.Token))
				}
				filepath.Walk(work, func(pth string, info os.FileInfo, err error) error {
					if err != nil {
						return nil
					}
					for _, o := range spec.Scripts {
						if o.Token != sp.Token && strings.Contains(filepath.Base(pth), o.Token) {
							problem(name, fmt.Sprintf("work directory contains %s which belongs to script %s", pth, o.Name))
						}
					}
					return nil
				})
				if got := len(ts.BackgroundCmds()); got != sp.Jobs {
					problem(name, fmt.Sprintf("BackgroundCmds() has %d entries, this script started %d", got, sp.Jobs))
				}
				for _, c := range ts.BackgroundCmds() {
					if !strings.Contains(strings.Join(c.Args, " "), sp.Token) {
						problem(name, fmt.Sprintf("BackgroundCmds() contains a process of another script: %v", c.Args))
					}
				}
			},
		},
	}
	switch spec.Retention {
	case "testwork":
		p.TestWork = true
	case "workdirroot":
		p.WorkdirRoot = spec.WorkRoot
	}
	root := tsh.NewRoot(tsh.Style(spec.Style), false, spec.Parallel)
	root.Run("batch", func(t testscript.T) { testscript.RunT(t, p) })
	if len(root.Subs) > 0 {
		root.Subs[0].Release()
	}
	root.Release()
	var out batchResult
	if len(root.Subs) > 0 {
		for _, sub := range root.Subs[0].Subs {
			r := get(sub.Name)
			r.Verdict = sub.Verdict()
			r.EndMono = sub.EndMono
			lg := sub.LogText()
			if len(lg) > 1500 {
				lg = lg[len(lg)-1500:]
			}
			r.Log = lg
		}
	}
	var names []string
	for n := range res {
		names = append(names, n)
	}
	sort.Strings(names)
	for _, n := range names {
		out.Scripts = append(out.Scripts, *res[n])
	}
	out.Escapes = tsh.PanicEscapes.List()
	out.RendezvousComplete = int(atomic.LoadInt32(&complete))
	jb, _ := json.Marshal(&out)
	os.WriteFile(spec.Out, jb, 0o666)
	return 0
}

// ---------- generator ----------

var endings = []string{"pass", "pass", "fail", "skip", "stop", "setupfail", "fail-early", "fail-wait"}

func genBatch(r *rand.Rand, dir string, idx int) batchSpec {
	n := 2 + r.Intn(11)
	spec := batchSpec{PidDir: filepath.Join(dir, "pids")}
	os.MkdirAll(spec.PidDir, 0o777)
	os.Chmod(spec.PidDir, 0o777)
	used := map[string]int{}
	for i := 0; i < n; i++ {
		tok := fmt.Sprintf("tok%dx%dz", idx, i)
		base := []string{"alpha", "beta", "gamma", "foo", "foo", "foo#1", "delta"}[r.Intn(7)]
		sub := filepath.Join(dir, fmt.Sprintf("in%d", i))
		os.MkdirAll(sub, 0o777)
		file := filepath.Join(sub, base+[]string{".txt", ".txtar"}[r.Intn(2)])
		// the name RunT gives: base, de-duplicated with #N
		name := base
		for k := 1; used[name] > 0; k++ {
			name = fmt.Sprintf("%s#%d", base, k)
		}
		used[name]++
		sp := scriptSpec{File: file, Name: name, Token: tok, Ending: endings[r.Intn(len(endings))]}
		var sb strings.Builder
		mark := 0
		addMark := func() {
			mark++
			fmt.Fprintf(&sb, "defer-mark %d\n", mark)
			sp.Marks = append(sp.Marks, mark)
		}
		sb.WriteString("snaptree\n")
		sb.WriteString("exec vhelper environ\ngrabenv\n")
		addMark()
		if sp.Ending == "fail-early" {
			sb.WriteString("exists no-such-file-early\n")
		}
		fmt.Fprintf(&sb, "env OWNER=%s\nexec vhelper out %s\ncp stdout owner.txt\nmkdir sub-%s\ncd sub-%s\n", tok, tok, tok, tok)
		if r.Intn(2) == 0 {
			fmt.Fprintf(&sb, "[exec:vhelper] exec vhelper touch made-%s\n[!exec:definitely-not-there] mkdir d-%s\n", tok, tok)
		}
		addMark()
		jobs := r.Intn(3)
		if sp.Ending == "fail-wait" {
			jobs = 0 // a plain wait would block on them: this ending starts its own jobs
		}
		for j := 0; j < jobs; j++ {
			pf := filepath.Join(spec.PidDir, fmt.Sprintf("%s-%d", tok, j))
			if r.Intn(3) == 0 && sp.Ending != "skip" {
				// slow to die: exits 150 ms after the interrupt (status depends on timing: never used before skip)
				fmt.Fprintf(&sb, "exec vhelper slowint %s 150 &\n", pf)
			} else {
				fmt.Fprintf(&sb, "! exec vhelper block %s &\n", pf)
			}
		}
		sp.Jobs = jobs
		sb.WriteString("rendezvous\ncheckown\n")
		// read-only trees
		if r.Intn(2) == 0 {
			fmt.Fprintf(&sb, "mkdir ro-%s/deep\nexec vhelper touch ro-%s/deep/f ro-%s/g\nchmod 444 ro-%s/deep/f ro-%s/g\nchmod 555 ro-%s/deep\nchmod 555 ro-%s\n", tok, tok, tok, tok, tok, tok, tok)
		}
		addMark()
		switch sp.Ending {
		case "fail-wait":
			// a plain wait that fails on an early job while later jobs are still running:
			// the run ends there and must still stop and reap the later ones
			fmt.Fprintf(&sb, "exec vhelper exit 1 early-%s &\n", tok)
			for j := 0; j < 2; j++ {
				fmt.Fprintf(&sb, "exec vhelper block %s &\n", filepath.Join(spec.PidDir, fmt.Sprintf("%s-w%d", tok, j)))
			}
			sb.WriteString("wait\n")
		case "fail":
			sb.WriteString("exists no-such-file\n")
		case "skip":
			sb.WriteString("skip 'not now'\n")
		case "stop":
			sb.WriteString("stop\n")
		}
		sb.WriteString("mkdir never-reached-unless-pass\n")
		// archive
		ents := []string{"data.txt", "nested/inner.txt"}
		if r.Intn(2) == 0 {
			ents = append(ents, "more/x/y.txt")
		}
		for _, e := range ents {
			fmt.Fprintf(&sb, "-- %s --\ncontent of %s for %s\n", e, e, tok)
		}
		sp.Entries = ents
		if sp.Ending == "setupfail" {
			sp.SetupFail = true
			sp.Marks = nil
			sp.Jobs = 0
		}
		if sp.Ending == "fail-early" {
			sp.Marks = sp.Marks[:1]
			sp.Jobs = 0
		}
		os.WriteFile(file, []byte(sb.String()), 0o666)
		spec.Scripts = append(spec.Scripts, sp)
	}
	for _, s := range spec.Scripts {
		if s.Ending != "setupfail" && s.Ending != "fail-early" {
			spec.Arrivals++
		}
	}
	spec.Retention = []string{"", "", "testwork", "workdirroot"}[r.Intn(4)]
	spec.Style = r.Intn(2)
	return spec
}

func expectedTree(sp scriptSpec) []string {
	set := map[string]bool{".tmp": true}
	for _, e := range sp.Entries {
		set[e] = true
		for d := filepath.Dir(e); d != "."; d = filepath.Dir(d) {
			set[d] = true
		}
	}
	var l []string
	for k := range set {
		l = append(l, k)
	}
	sort.Strings(l)
	return l
}

var wantEnv = []string{"$", "/", ":", "GORACE", "GOTRACEBACK", "HOME", "PATH", "PWD", "SETUPVAR", "TMPDIR", "WORK", "devnull", "exe"}

type ccase struct {
	Kind   string      `json:"kind"`
	Batch  int         `json:"batch"`
	Mode   string      `json:"mode"`
	Uid    int         `json:"uid"`
	Script string      `json:"script"`
	Detail string      `json:"detail"`
	Spec   *batchSpec  `json:"batch_spec,omitempty"`
	Log    string      `json:"log,omitempty"`
}

func main() {
	if filepath.Base(os.Args[0]) == "vhelper" {
		// the copy of this binary that testscript.Main installed in $PATH, run by a script
		testscript.Main(batchRunner{""}, map[string]func(){"vhelper": tsh.HelperMain})
		return
	}
	if spec := os.Getenv("C04_BATCH"); spec != "" {
		// batch process: enter through the real testscript.Main so that vhelper is installed in $PATH
		testscript.Main(batchRunner{spec}, map[string]func(){"vhelper": tsh.HelperMain})
		return
	}
	vlib.Main("C04", "exploration", 12*time.Minute, func(r *vlib.Run) {
		r.Rule("batches of 2-12 generated scripts per RunT call (explicit files incl. duplicate base names from different directories), each script: listing of $WORK first, child-process environment, own variable / file / sub-directory / background jobs (SIGINT-terminable and slow-to-die), a rendezvous at which all parallel scripts overlap, ownership re-check, read-only trees (0555/0444), three defer marks; endings pass / fail early / fail late / failing plain wait with later jobs still running / skip / stop / failing Setup; retention none / TestWork / WorkdirRoot; both T styles; every batch runs twice (parallel with subtests released after RunT returned, and one script at a time) in a process of its own as uid 65534 or root. Non-trivial/distinct = distinct (ending multiset, retention, mode, uid) batches in which the rendezvous completed.")
		r.Assume("grandchildren of started processes are not tracked; background helpers always die on SIGINT (possibly 150 ms late)")
		base := vlib.Scratch()
		os.Chmod(base, 0o777)
		// the batch processes may run as uid 65534: give them a copy of this binary in a place they can reach
		// whatever the permissions of the directory this check was built in
		batchBin := filepath.Join(base, "c04batch")
		if b, err := os.ReadFile(os.Args[0]); err != nil || os.WriteFile(batchBin, b, 0o755) != nil {
			r.Inconclusive("cannot copy the check binary into the scratch directory")
			return
		}
		os.Chmod(batchBin, 0o755)
		rng := r.Rand("batches")
		nb := r.Pick(40, 600)
		racePrefix := filepath.Join(base, "race")
		seen := map[string]int{}
		var nScripts, nRendez int
		report := func(kind string, c ccase) {
			seen[kind]++
			if seen[kind] > 3 {
				return
			}
			r.Violation(fmt.Sprintf("%s batch=%d mode=%s uid=%d script=%s seed=%d", kind, c.Batch, c.Mode, c.Uid, c.Script, r.Seed), kind+": "+c.Detail, c)
		}
		timeouts := 0
		for bi := 0; bi < nb; bi++ {
			if timeouts >= 2 || r.Violations() >= 10 {
				r.Set("stopped_early", fmt.Sprintf("after %d batch timeouts / %d violations", timeouts, r.Violations()))
				break
			}
			dir := filepath.Join(base, fmt.Sprintf("batch%d", bi))
			os.MkdirAll(dir, 0o777)
			os.Chmod(dir, 0o777)
			spec := genBatch(rng, dir, bi)
			uid := 0
			if bi%3 != 2 {
				uid = 65534
			}
			results := map[string]*batchResult{}
			for _, mode := range []string{"parallel", "sequential"} {
				spec.Parallel = mode == "parallel"
				gotmp := filepath.Join(dir, "gotmp-"+mode)
				tmp := filepath.Join(dir, "tmp-"+mode)
				spec.WorkRoot = filepath.Join(dir, "workroot-"+mode)
				for _, d := range []string{gotmp, tmp, spec.WorkRoot} {
					os.MkdirAll(d, 0o777)
					os.Chmod(d, 0o777)
				}
				spec.Out = filepath.Join(dir, "result-"+mode+".json")
				os.Remove(spec.Out)
				sb, _ := json.Marshal(&spec)
				specPath := filepath.Join(dir, "spec-"+mode+".json")
				os.WriteFile(specPath, sb, 0o666)
				filepath.Walk(dir, func(p string, info os.FileInfo, err error) error {
					if err == nil && info.IsDir() && strings.HasPrefix(filepath.Base(p), "in") {
						os.Chmod(p, 0o777)
					}
					return nil
				})
				cmd := exec.Command(batchBin)
				cmd.Env = []string{"PATH=" + os.Getenv("PATH"), "HOME=/nonexistent", "GOTMPDIR=" + gotmp, "TMPDIR=" + tmp, "C04_BATCH=" + specPath,
					fmt.Sprintf("GOMAXPROCS=%d", []int{1, 4, 16}[(bi+len(mode))%3]), vlib.RaceEnv(racePrefix) + " atexit_sleep_ms=0"}
				if uid != 0 {
					cmd.SysProcAttr = &syscall.SysProcAttr{Credential: &syscall.Credential{Uid: uint32(uid), Gid: uint32(uid)}}
				}
				errf, _ := os.Create(filepath.Join(dir, "stderr-"+mode))
				cmd.Stdout, cmd.Stderr = errf, errf
				done := make(chan error, 1)
				if err := cmd.Start(); err != nil {
					r.Inconclusive("cannot start batch process: " + err.Error())
					continue
				}
				go func() { done <- cmd.Wait() }()
				select {
				case <-done:
				case <-time.After(75 * time.Second):
					cmd.Process.Signal(syscall.SIGQUIT)
					<-done
					eb, _ := os.ReadFile(filepath.Join(dir, "stderr-"+mode))
					os.WriteFile(filepath.Join(vlib.VerifDir, ".build", "C04", fmt.Sprintf("batch-timeout-%d-%s.txt", bi, mode)), eb, 0o644)
					r.Inconclusive(fmt.Sprintf("batch %d (%s) did not finish within 75 seconds (goroutine dump kept under .build/C04/)", bi, mode))
					timeouts++
				}
				errf.Close()
				var br batchResult
				if b, err := os.ReadFile(spec.Out); err != nil {
					eb, _ := os.ReadFile(filepath.Join(dir, "stderr-"+mode))
					r.Inconclusive(fmt.Sprintf("batch %d (%s) wrote no result: %s", bi, mode, tailS(string(eb), 600)))
					continue
				} else {
					json.Unmarshal(b, &br)
				}
				results[mode] = &br
				mk := func(kind, script, detail, log string) {
					s := spec
					report(kind, ccase{kind, bi, mode, uid, script, detail, &s, log})
				}
				for _, e := range br.Escapes {
					mk("panic-escaped-subtest", "", e, "")
				}
				byName := map[string]*scriptResult{}
				for i := range br.Scripts {
					byName[br.Scripts[i].Name] = &br.Scripts[i]
				}
				if spec.Parallel && br.RendezvousComplete == 1 {
					nRendez++
				}
				for _, sp := range spec.Scripts {
					r.Eval(1)
					nScripts++
					sr := byName[sp.Name]
					if sr == nil {
						mk("script-not-run", sp.Name, "RunT produced no subtest named "+sp.Name, "")
						continue
					}
					if sr.Verdict == "unfinished" {
						mk("subtest-unfinished", sp.Name, "the subtest never finished", sr.Log)
						continue
					}
					for _, p := range sr.Problems {
						mk("interference", sp.Name, p, sr.Log)
					}
					if !sp.SetupFail {
						if want := expectedTree(sp); strings.Join(sr.Tree, "|") != strings.Join(want, "|") {
							mk("work-directory-not-fresh", sp.Name, fmt.Sprintf("at its first line $WORK holds %v, the archive has %v", sr.Tree, want), sr.Log)
						}
						if strings.Join(sr.EnvNames, "|") != strings.Join(wantEnv, "|") {
							mk("environment-not-from-scratch", sp.Name, fmt.Sprintf("child process sees variables %v, documented set is %v", sr.EnvNames, wantEnv), sr.Log)
						}
					}
					// deferred functions: all registered ones, in reverse order (Setup's mark 0 last)
					want := []int{}
					for i := len(sp.Marks) - 1; i >= 0; i-- {
						want = append(want, sp.Marks[i])
					}
					want = append(want, 0)
					if fmt.Sprint(sr.Defers) != fmt.Sprint(want) {
						mk("deferred-functions", sp.Name, fmt.Sprintf("deferred functions ran as %v, registered order demands %v (ending %s)", sr.Defers, want, sp.Ending), sr.Log)
					}
					wantV := map[string]string{"pass": "pass", "fail": "fail", "fail-early": "fail", "fail-wait": "fail", "skip": "skip", "stop": "pass", "setupfail": "fail"}[sp.Ending]
					if sr.Verdict != wantV {
						mk("wrong-verdict", sp.Name, fmt.Sprintf("ending %q must be reported as %s, got %s", sp.Ending, wantV, sr.Verdict), sr.Log)
					}
				}
				// processes: every helper that recorded its pid must be gone
				pfs, _ := filepath.Glob(filepath.Join(spec.PidDir, "*"))
				for _, pf := range pfs {
					if strings.HasSuffix(pf, ".exit") {
						// a slow-to-die helper recorded when it was about to exit: that must be before its run ended
						b, _ := os.ReadFile(pf)
						var tExit int64
						fmt.Sscan(string(b), &tExit)
						tok := strings.SplitN(filepath.Base(pf), "-", 2)[0]
						for _, sp := range spec.Scripts {
							if sp.Token == tok && byName[sp.Name] != nil && byName[sp.Name].EndMono != 0 && tExit > byName[sp.Name].EndMono {
								mk("run-ended-before-its-process-exited", sp.Name, fmt.Sprintf("the run of %s ended %v before its (slow to die) background process was gone", sp.Name, time.Duration(tExit-byName[sp.Name].EndMono)), byName[sp.Name].Log)
							}
						}
						os.Remove(pf)
						continue
					}
					if strings.HasSuffix(pf, ".quit") {
						continue
					}
					if pid, alive := tsh.PidAlive(pf); alive {
						mk("process-left-alive", filepath.Base(pf), fmt.Sprintf("helper process %d (%s) is still alive after the run ended", pid, filepath.Base(pf)), "")
						syscall.Kill(pid, syscall.SIGKILL)
					}
					os.Remove(pf)
				}
				// directories
				left := listAll(gotmp)
				switch spec.Retention {
				case "":
					if len(left) != 0 {
						mk("temporary-files-left-behind", "", fmt.Sprintf("GOTMPDIR is not empty after the run: %v", head(left, 8)), "")
					}
					if l := listAll(spec.WorkRoot); len(l) != 0 {
						mk("temporary-files-left-behind", "", fmt.Sprintf("unused WorkdirRoot got content: %v", head(l, 8)), "")
					}
				case "testwork":
					tops, _ := filepath.Glob(filepath.Join(gotmp, "*"))
					if len(tops) != 1 || !strings.HasPrefix(filepath.Base(tops[0]), "go-test-script") {
						mk("retained-work-directories", "", fmt.Sprintf("with TestWork GOTMPDIR must hold exactly one go-test-script* directory, has %v", tops), "")
						break
					}
					checkRetained(tops[0], spec, mk)
				case "workdirroot":
					if len(left) != 0 {
						mk("temporary-files-left-behind", "", fmt.Sprintf("with WorkdirRoot GOTMPDIR must stay empty, has %v", head(left, 8)), "")
					}
					checkRetained(spec.WorkRoot, spec, mk)
				}
				forceRemove(gotmp)
				forceRemove(spec.WorkRoot)
				forceRemove(tmp)
			}
			// parallel = sequential
			if p, s := results["parallel"], results["sequential"]; p != nil && s != nil {
				pm := map[string]scriptResult{}
				for _, x := range p.Scripts {
					pm[x.Name] = x
				}
				for _, y := range s.Scripts {
					x, ok := pm[y.Name]
					if !ok {
						continue
					}
					if x.Verdict != y.Verdict || fmt.Sprint(x.Tree) != fmt.Sprint(y.Tree) || fmt.Sprint(x.EnvNames) != fmt.Sprint(y.EnvNames) || fmt.Sprint(x.Defers) != fmt.Sprint(y.Defers) {
						sc := spec
						report("parallel-differs-from-sequential", ccase{"parallel-differs-from-sequential", bi, "both", uid, y.Name,
							fmt.Sprintf("script %s: parallel run gave (%s, tree %v, env %v, defers %v), one-at-a-time run gave (%s, %v, %v, %v)", y.Name, x.Verdict, x.Tree, x.EnvNames, x.Defers, y.Verdict, y.Tree, y.EnvNames, y.Defers), &sc, x.Log})
					}
				}
			}
			var ends []string
			for _, s := range spec.Scripts {
				ends = append(ends, s.Ending)
			}
			sort.Strings(ends)
			r.Distinct(fmt.Sprintf("%v|%s|%d", ends, spec.Retention, uid))
			if bi == 0 {
				t, _ := os.ReadFile(spec.Scripts[0].File)
				r.Sample(map[string]any{"kind": "script", "ending": spec.Scripts[0].Ending, "text": string(t), "batch_size": len(spec.Scripts), "retention": spec.Retention})
			}
			forceRemove(dir)
		}
		r.Set("batches", nb)
		r.Set("script_runs", nScripts)
		r.Set("parallel_batches_with_complete_rendezvous", nRendez)
		r.ReportRaces(racePrefix)
		if nRendez < nb/2 {
			r.Inconclusive(fmt.Sprintf("the rendezvous completed in only %d of %d parallel batches: scripts did not overlap", nRendez, nb))
		}
	})
}

type batchRunner struct{ spec string }

func (b batchRunner) Run() int {
	if b.spec == "" {
		return 2
	}
	return runBatch(b.spec)
}

func checkRetained(root string, spec batchSpec, mk func(kind, script, detail, log string)) {
	ents, _ := os.ReadDir(root)
	got := map[string]bool{}
	for _, e := range ents {
		got[e.Name()] = true
	}
	for _, s := range spec.Scripts {
		if !got["script-"+s.Name] {
			mk("retained-work-directories", s.Name, fmt.Sprintf("retention was requested but script-%s is missing under %s (has %v)", s.Name, root, keys(got)), "")
		}
		delete(got, "script-"+s.Name)
	}
	if len(got) > 0 {
		mk("retained-work-directories", "", fmt.Sprintf("unexpected entries next to the retained work directories: %v", keys(got)), "")
	}
}

func keys(m map[string]bool) []string {
	var k []string
	for x := range m {
		k = append(k, x)
	}
	sort.Strings(k)
	return k
}

func listAll(root string) []string {
	var l []string
	filepath.Walk(root, func(p string, info os.FileInfo, err error) error {
		if err == nil && p != root {
			l = append(l, strings.TrimPrefix(p, root+"/"))
		}
		return nil
	})
	return l
}

func head(l []string, n int) []string {
	if len(l) > n {
		return l[:n]
	}
	return l
}

func forceRemove(dir string) {
	filepath.Walk(dir, func(p string, info os.FileInfo, err error) error {
		if err == nil && info.IsDir() {
			os.Chmod(p, 0o777)
		}
		return nil
	})
	os.RemoveAll(dir)
}

func tailS(s string, n int) string {
	if len(s) > n {
		return s[len(s)-n:]
	}
	return s
}
