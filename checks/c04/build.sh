# second back-end: a test binary that runs the batches on the real *testing.T
go test "${MODFLAG[@]}" -c -race -tags verif -o "$B/realt.test" ./checks/c04/realt || return 1
