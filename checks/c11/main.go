// C11: concurrent cache users never observe corrupt or foreign data.
// Oracle: every reader verifies what it got (regenerable self-describing
// payloads, sha256 = OutputID, len = Size, file content for GetFile); a
// "Put completed" flag per identical-content id lives in shared memory, is
// set after a Put returned and sampled before a lookup starts: flag set and
// lookup misses => violation; quiescent final sweep; Go race detector.
package main

import (
	"bytes"
	"crypto/sha256"
	"encoding/json"
	"errors"
	"fmt"
	"math/rand"
	"os"
	"os/exec"
	"path/filepath"
	"runtime"
	"sort"
	"strconv"
	"strings"
	"sync"
	"sync/atomic"
	"syscall"
	"time"

	"github.com/rogpeppe/go-internal/cache"

	"verif/gen/payload"
	"verif/vlib"
)

const (
	nA = 24
	nB = 8
)

// first creations of an output are where concurrent writers meet half-written files: many ids, several chunks
var sizesA = [nA]int{0, 1, 100, 4096, 32768, 32769, 100 << 10, 7, 300 << 10, 1 << 20, 65537, 98304,
	40000, 70000, 200 << 10, 33000, 512 << 10, 66000, 131072, 99999, 160 << 10, 45000, 250000, 36000}
var sizesB = []int{64, 1000, 32769, 200 << 10}

// T ids: identical content per id like the A ids, but now and then a worker removes their output
// file, as Trim does to an entry that was only kept fresh through Get (which refreshes the index
// entry, not the output). Lookups may then miss - what they return must still be exact, also
// while the output is being written again.
const nT = 4

func idT(k int) cache.ActionID { return cache.ActionID(sha256.Sum256([]byte(fmt.Sprintf("T-%d", k)))) }

var contentTCache [nT][]byte
var contentTOnce [nT]sync.Once

func contentT(k int) []byte {
	contentTOnce[k].Do(func() {
		contentTCache[k] = payload.Make("T", int64(k), []int{300 << 10, 512 << 10, 700 << 10, 1 << 20}[k%4])
	})
	return contentTCache[k]
}

// S ids: ids that now and then hold the content of an A id (S[k] shares the output file of A[3k+3]) and
// now and then content of their own: an id that moves on to other content leaves the output it used to
// share to those who still name it.
const nS = 4

func idS(k int) cache.ActionID { return cache.ActionID(sha256.Sum256([]byte(fmt.Sprintf("S-%d", k)))) }
func sharedA(k int) int        { return 3*k + 3 }

func idA(k int) cache.ActionID { return cache.ActionID(sha256.Sum256([]byte(fmt.Sprintf("A-%d", k)))) }
func idB(k int) cache.ActionID { return cache.ActionID(sha256.Sum256([]byte(fmt.Sprintf("B-%d", k)))) }

var (
	contentAOnce [nA]sync.Once
	contentAVal  [nA][]byte
)

// contentA is the (fixed) content of identical-content id k; computed once per process.
func contentA(k int) []byte {
	contentAOnce[k].Do(func() { contentAVal[k] = payload.Make(fmt.Sprintf("A%d", k), int64(k), sizesA[k]) })
	return contentAVal[k]
}
func contentB(k int, version int64) []byte {
	return payload.Make(fmt.Sprintf("B%d", k), version, sizesB[int(version)%len(sizesB)])
}

// validB checks that data is a complete payload some writer stored under B[k].
func validB(k int, data []byte) string {
	parts := strings.SplitN(string(data[:min(len(data), 48)]), "|", 4)
	if len(parts) < 4 || parts[0] != fmt.Sprintf("B%d", k) {
		return fmt.Sprintf("payload header %q does not belong to id B%d", data[:min(len(data), 24)], k)
	}
	seed, err1 := strconv.ParseInt(parts[1], 10, 64)
	size, err2 := strconv.Atoi(parts[2])
	if err1 != nil || err2 != nil || size != len(data) {
		return fmt.Sprintf("payload header %q inconsistent with length %d", data[:min(len(data), 24)], len(data))
	}
	if !bytes.Equal(data, contentB(k, seed)) {
		return "payload body differs from what version " + parts[1] + " stored (mixed / torn content)"
	}
	return ""
}

// failSource delivers its data on the first (hashing) pass and fails half-way through the
// second (copy) pass: a writer that finishes with an error. Its content is always fresh
// (never stored before), so the only output file it can touch is its own.
type failSource struct {
	r     *bytes.Reader
	seeks int
	pos   int64
}

func (s *failSource) Seek(off int64, whence int) (int64, error) {
	s.seeks++
	s.pos = 0
	return s.r.Seek(off, whence)
}

func (s *failSource) Read(p []byte) (int, error) {
	if s.seeks >= 2 {
		half := int64(s.r.Size() / 2)
		if s.pos >= half {
			return 0, errors.New("injected source failure in the copy pass")
		}
		if int64(len(p)) > half-s.pos {
			p = p[:half-s.pos]
		}
	}
	n, err := s.r.Read(p)
	s.pos += int64(n)
	return n, err
}

// slowSource delays between the chunks that Put reads.
type slowSource struct {
	*bytes.Reader
	x uint64
}

func (s *slowSource) Read(p []byte) (int, error) {
	s.x = s.x*6364136223846793005 + 1442695040888963407
	switch (s.x >> 33) % 4 {
	case 0:
		time.Sleep(time.Duration((s.x>>40)%400) * time.Microsecond)
	case 1:
		runtime.Gosched()
	}
	return s.Reader.Read(p)
}

type event struct {
	ID   int   `json:"id"` // 0..7 = A, 8..15 = B
	Put  bool  `json:"put"`
	Call int64 `json:"call"`
	Ret  int64 `json:"ret"`
}

type workerResult struct {
	Ops             int64 `json:"ops"`
	Puts            int64 `json:"puts"`
	HitsA           int64 `json:"hits_a"`
	MissA           int64 `json:"miss_a"`
	MissAEarly      int64 `json:"miss_a_before_any_put_completed"`
	FailedPuts      int64 `json:"puts_with_a_failing_source"`
	TOutputsRemoved int64 `json:"outputs_removed_under_a_live_index_entry"`
	SShared         int64 `json:"puts_making_two_ids_share_an_output"`
	SOwn            int64 `json:"puts_moving_a_sharing_id_to_other_content"`
	THits, TMisses  int64
	HitsB           int64               `json:"hits_b"`
	MissB           int64               `json:"miss_b"`
	Hook            map[string]int64    `json:"hook"`
	Violations      []map[string]string `json:"violations"`
	Events          []event             `json:"events"`
}

// ---------- worker process ----------

func worker() {
	dir := os.Getenv("C11_DIR")
	out := os.Getenv("C11_OUT")
	seed, _ := strconv.ParseInt(os.Getenv("C11_SEED"), 10, 64)
	G, _ := strconv.Atoi(os.Getenv("C11_G"))
	N, _ := strconv.Atoi(os.Getenv("C11_N"))
	wid, _ := strconv.ParseInt(os.Getenv("C11_WID"), 10, 64)
	flags, err := vlib.OpenSharedWords(os.Getenv("C11_FLAGS"), 64)
	if err != nil {
		fmt.Fprintln(os.Stderr, "flags:", err)
		os.Exit(2)
	}
	c, err := cache.Open(dir)
	if err != nil {
		fmt.Fprintln(os.Stderr, "open:", err)
		os.Exit(2)
	}
	var res workerResult
	var mu sync.Mutex
	res.Hook = map[string]int64{}
	viol := func(kind, detail string) {
		mu.Lock()
		if len(res.Violations) < 20 {
			res.Violations = append(res.Violations, map[string]string{"kind": kind, "detail": detail})
		}
		mu.Unlock()
	}
	var hookCtr uint64
	cache.VerifSetHook(func(point string) {
		n := atomic.AddUint64(&hookCtr, 1)
		mu.Lock()
		res.Hook[point]++
		mu.Unlock()
		x := (n*0x9e3779b97f4a7c15 + uint64(seed)) >> 33
		switch x % 10 {
		case 0:
			time.Sleep(time.Duration(x%2000) * time.Microsecond)
		case 1:
			runtime.Gosched()
		}
	})
	// rendezvous: wait until the parent releases all workers at once
	for flags.Load(63) == 0 {
		time.Sleep(200 * time.Microsecond)
	}
	var wg sync.WaitGroup
	var serial int64
	for g := 0; g < G; g++ {
		wg.Add(1)
		go func(g int) {
			defer wg.Done()
			rng := rand.New(rand.NewSource(seed*1000 + int64(g)))
			var evs []event
			for i := 0; i < N; i++ {
				if rng.Intn(24) == 0 {
					sk := rng.Intn(nS)
					atomic.AddInt64(&res.Ops, 1)
					switch rng.Intn(3) {
					case 0: // the content of A[sharedA(sk)]: one output file, two ids
						if err := c.PutBytes(idS(sk), contentA(sharedA(sk))); err != nil {
							viol("put-failed", fmt.Sprintf("Put(id S%d) returned %v", sk, err))
						}
						atomic.AddInt64(&res.SShared, 1)
					case 1: // content of its own: the shared output is no longer this id's
						v := wid*1_000_000 + atomic.AddInt64(&serial, 1)
						if err := c.PutBytes(idS(sk), payload.Make(fmt.Sprintf("S%d", sk), v, 5000)); err != nil {
							viol("put-failed", fmt.Sprintf("Put(id S%d) returned %v", sk, err))
						}
						atomic.AddInt64(&res.SOwn, 1)
					default:
						data, ent, err := c.GetBytes(idS(sk))
						if err != nil {
							if !strings.HasPrefix(err.Error(), "cache entry not found") {
								viol("lookup-failed", fmt.Sprintf("id S%d: lookup returned %v (not a not-found error)", sk, err))
							}
							break
						}
						ok := bytes.Equal(data, contentA(sharedA(sk)))
						if !ok {
							parts := strings.SplitN(string(data[:min(len(data), 48)]), "|", 4)
							if len(parts) == 4 && parts[0] == fmt.Sprintf("S%d", sk) {
								if v, perr := strconv.ParseInt(parts[1], 10, 64); perr == nil {
									ok = bytes.Equal(data, payload.Make(parts[0], v, 5000))
								}
							}
						}
						if !ok || int64(len(data)) != ent.Size || sha256.Sum256(data) != [32]byte(ent.OutputID) {
							viol("foreign-or-corrupt-bytes", fmt.Sprintf("id S%d: GetBytes returned %d bytes (entry size %d) that nobody stored under it", sk, len(data), ent.Size))
						}
					}
					continue
				}
				k := rng.Intn(nA + nB + nT/2) // the T ids are drawn less often
				if k >= nA+nB {
					tk := rng.Intn(nT)
					id, want := idT(tk), contentT(tk)
					atomic.AddInt64(&res.Ops, 1)
					// The removal is the harness's own doing, so it must not cut into a lookup that is
					// between GetFile and reading the named file (a real Trim only removes what nobody
					// has used for days): lookups hold a shared flock on a side file, the removal an
					// exclusive one. Puts take none, so they overlap with lookups freely.
					guard, gerr := os.OpenFile(filepath.Join(dir, fmt.Sprintf("harness-guard-T%d", tk)), os.O_RDWR|os.O_CREATE, 0o666)
					if gerr != nil {
						continue
					}
					op := rng.Intn(5)
					switch {
					case op == 0:
						syscall.Flock(int(guard.Fd()), syscall.LOCK_EX)
					case op >= 3:
						syscall.Flock(int(guard.Fd()), syscall.LOCK_SH)
					}
					func() {
						defer guard.Close() // releases the flock
						switch op {
						case 0: // the output disappears (as after a Trim), the index entry stays
							h := sha256.Sum256(want)
							os.Remove(filepath.Join(dir, fmt.Sprintf("%02x", h[0]), fmt.Sprintf("%x-d", h)))
							atomic.AddInt64(&res.TOutputsRemoved, 1)
						case 1, 2:
							var err error
							if rng.Intn(2) == 0 {
								_, _, err = c.Put(id, &slowSource{Reader: bytes.NewReader(want), x: uint64(rng.Int63())})
							} else {
								err = c.PutBytes(id, want)
							}
							if err != nil {
								viol("put-failed", fmt.Sprintf("Put(id T%d) returned %v", tk, err))
							}
						default:
							var data []byte
							var ent cache.Entry
							var err error
							api := "GetBytes"
							if rng.Intn(3) != 0 {
								api = "GetFile"
								var file string
								file, ent, err = c.GetFile(id)
								if err == nil {
									data, err = os.ReadFile(file)
									if err != nil {
										// removed by another worker between GetFile and the read: a miss
										atomic.AddInt64(&res.TMisses, 1)
										return
									}
								}
							} else {
								data, ent, err = c.GetBytes(id)
							}
							if err != nil {
								if !strings.HasPrefix(err.Error(), "cache entry not found") {
									viol("lookup-failed", fmt.Sprintf("id T%d: lookup returned %v (not a not-found error)", tk, err))
								}
								atomic.AddInt64(&res.TMisses, 1)
								return
							}
							atomic.AddInt64(&res.THits, 1)
							if int64(len(data)) != ent.Size || sha256.Sum256(data) != [32]byte(ent.OutputID) || !bytes.Equal(data, want) {
								viol("foreign-or-corrupt-bytes", fmt.Sprintf("id T%d (its output file is removed and stored again during the round): %s returned %d bytes (entry size %d) that are not its content; first difference at offset %d", tk, api, len(data), ent.Size, firstDiff(data, want)))
							}
						}
					}()
					continue
				}
				isA := k < nA
				atomic.AddInt64(&res.Ops, 1)
				if rng.Intn(2) == 0 {
					var data []byte
					var id cache.ActionID
					if isA {
						data, id = contentA(k), idA(k)
					} else {
						v := wid*1_000_000 + atomic.AddInt64(&serial, 1)
						data, id = contentB(k-nA, v), idB(k-nA)
					}
					if !isA && rng.Intn(12) == 0 {
						// a writer that fails: the id keeps whatever a successful Put stored
						_, _, ferr := c.Put(id, &failSource{r: bytes.NewReader(data)})
						if ferr == nil {
							viol("failing-source-accepted", fmt.Sprintf("Put(id %d) returned nil although its source failed in the copy pass", k))
						}
						atomic.AddInt64(&res.FailedPuts, 1)
						continue
					}
					t0 := vlib.MonoNow()
					var err error
					switch rng.Intn(4) {
					case 0:
						err = c.PutBytes(id, data)
					case 1:
						_, _, err = c.Put(id, bytes.NewReader(data))
					default:
						// a slow source (the reader is the caller's): the copy into the cache takes a while,
						// so that other writers and readers meet the half-written output
						_, _, err = c.Put(id, &slowSource{Reader: bytes.NewReader(data), x: uint64(rng.Int63())})
					}
					t1 := vlib.MonoNow()
					evs = append(evs, event{k, true, t0, t1})
					atomic.AddInt64(&res.Puts, 1)
					if err != nil {
						viol("put-failed", fmt.Sprintf("Put(id %d) returned %v", k, err))
						continue
					}
					// "Put completed" for this id (A: enables the must-hit rule; B: final sweep)
					flags.Store(k, 1)
					continue
				}
				// lookup
				var id cache.ActionID
				if isA {
					id = idA(k)
				} else {
					id = idB(k - nA)
				}
				completed := flags.Load(k) == 1 // sampled BEFORE the lookup starts
				useFile := rng.Intn(2) == 0
				t0 := vlib.MonoNow()
				var data []byte
				var ent cache.Entry
				var err error
				if useFile {
					var file string
					file, ent, err = c.GetFile(id)
					if err == nil {
						var rerr error
						data, rerr = os.ReadFile(file)
						if rerr != nil {
							viol("getfile-names-unreadable-file", fmt.Sprintf("id %d: %v", k, rerr))
							continue
						}
					}
				} else {
					data, ent, err = c.GetBytes(id)
				}
				t1 := vlib.MonoNow()
				evs = append(evs, event{k, false, t0, t1})
				if err != nil {
					if !strings.HasPrefix(err.Error(), "cache entry not found") {
						viol("lookup-failed", fmt.Sprintf("id %d: lookup returned %v (not a not-found error)", k, err))
					}
					if isA {
						atomic.AddInt64(&res.MissA, 1)
						if completed {
							viol("identical-content-id-missed", fmt.Sprintf("id A%d: a Put of it had returned before this lookup began (its content is always identical), yet %s returned %v", k, map[bool]string{true: "GetFile", false: "GetBytes"}[useFile], err))
						} else {
							atomic.AddInt64(&res.MissAEarly, 1)
						}
					} else {
						atomic.AddInt64(&res.MissB, 1)
					}
					continue
				}
				api := map[bool]string{true: "GetFile", false: "GetBytes"}[useFile]
				if sum := sha256.Sum256(data); sum != [32]byte(ent.OutputID) {
					viol("hash-mismatch", fmt.Sprintf("id %d: %s returned %d bytes with sha256 %x, entry says %x", k, api, len(data), sum[:6], ent.OutputID[:6]))
				}
				if int64(len(data)) != ent.Size {
					viol("size-mismatch", fmt.Sprintf("id %d: %s returned %d bytes, entry says %d", k, api, len(data), ent.Size))
				}
				if isA {
					atomic.AddInt64(&res.HitsA, 1)
					if !bytes.Equal(data, contentA(k)) {
						viol("foreign-or-corrupt-bytes", fmt.Sprintf("id A%d: %s returned %d bytes (head %q) that are not its content", k, api, len(data), data[:min(len(data), 24)]))
					}
				} else {
					atomic.AddInt64(&res.HitsB, 1)
					if d := validB(k-nA, data); d != "" {
						viol("foreign-or-corrupt-bytes", fmt.Sprintf("id B%d: %s: %s", k-nA, api, d))
					}
				}
			}
			mu.Lock()
			if len(res.Events) < 60000 {
				res.Events = append(res.Events, evs...)
			}
			mu.Unlock()
		}(g)
	}
	wg.Wait()
	b, _ := json.Marshal(&res)
	os.WriteFile(out, b, 0o666)
}

func firstDiff(a, b []byte) int {
	for i := 0; i < len(a) && i < len(b); i++ {
		if a[i] != b[i] {
			return i
		}
	}
	if len(a) < len(b) {
		return len(a)
	}
	return len(b)
}

// ---------- parent ----------

type ccase struct {
	Kind   string `json:"kind"`
	Round  int    `json:"round"`
	Procs  int    `json:"processes"`
	Gor    int    `json:"goroutines_per_process"`
	Detail string `json:"detail"`
}

func main() {
	if os.Getenv("C11_WORKER") == "1" {
		worker()
		return
	}
	vlib.Main("C11", "exploration", 10*time.Minute, func(r *vlib.Run) {
		r.Rule("rounds; each round = fresh cache directory shared by P processes (3-8) x G goroutines (4-8) released together, each doing N operations on 24 identical-content ids (sizes 0..1MiB, half of the Puts from a slow source) and 8 differing-content ids (64B..200KiB): 50% Put/PutBytes, 50% GetBytes/GetFile, with seeded delays at the cache.* hook points. Evaluations = operations executed; distinct non-trivial = lookups that overlapped in time with a Put of the same id in another goroutine or process (counted from the merged op log), plus rounds. One in twelve Puts of a differing-content id uses a source that fails half-way through the copy pass (fresh content), and before the final sweep one such failing Put is made on every stored differing-content id: writers that finish with an error must not hide what was stored. Four further identical-content ids (300 KiB - 1 MiB) have their output file removed now and then while their index entry stays (what Trim does to an entry kept fresh through Get only) and are stored again concurrently: their lookups may miss, but what they return must be exact; four more ids alternate between the content of an identical-content id (sharing its output file) and content of their own, which must leave the shared output to the id that still names it; in the final sweep each of them is stored once more (two after another removal of the output) and must then be readable through GetBytes and GetFile.")
		r.Assume("Trim is not part of this workload; flag 'Put completed' is set after Put returned and sampled before the lookup is invoked (client boundary)")
		base := vlib.Scratch()
		rounds := r.Pick(12, 90)
		rng := r.Rand("rounds")
		hook := map[string]int64{}
		var tot workerResult
		var overlaps, totalEvents int64
		racePrefix := filepath.Join(base, "race")
		seenV := map[string]int{}
		for round := 0; round < rounds; round++ {
			dir := filepath.Join(base, fmt.Sprintf("cache%d%s", round, []string{"", "[ab]", " %s", "?*"}[round%4])) // a directory's own name is just a name
			os.MkdirAll(dir, 0o777)
			if _, err := cache.Open(dir); err != nil { // create the 256 sub-directories once
				r.Inconclusive(err.Error())
				return
			}
			P := 3 + rng.Intn(6)
			G := 4 + rng.Intn(5)
			N := r.Pick(80, 400)
			if round%5 == 4 {
				N *= 4 // a longer steady-state round
			}
			flagsPath := filepath.Join(base, fmt.Sprintf("flags%d", round))
			flags, err := vlib.OpenSharedWords(flagsPath, 64)
			if err != nil {
				r.Inconclusive(err.Error())
				return
			}
			var cmds []*exec.Cmd
			var outs []string
			for p := 0; p < P; p++ {
				out := filepath.Join(base, fmt.Sprintf("res-%d-%d.json", round, p))
				outs = append(outs, out)
				cmd := exec.Command(os.Args[0])
				cmd.Env = append(os.Environ(), "C11_WORKER=1", "C11_DIR="+dir, "C11_OUT="+out, "C11_FLAGS="+flagsPath,
					fmt.Sprintf("C11_SEED=%d", r.SubSeed(fmt.Sprintf("w-%d-%d", round, p))%1_000_000),
					fmt.Sprintf("C11_G=%d", G), fmt.Sprintf("C11_N=%d", N), fmt.Sprintf("C11_WID=%d", p+1),
					vlib.RaceEnv(racePrefix))
				cmd.Stderr = os.Stderr
				if err := cmd.Start(); err != nil {
					r.Inconclusive(err.Error())
					return
				}
				cmds = append(cmds, cmd)
			}
			time.Sleep(150 * time.Millisecond) // let every worker reach the rendezvous
			flags.Store(63, 1)
			killed := -1
			if round%4 == 3 {
				// one writer process is SIGKILLed mid-round (leaves partial files behind)
				killed = rng.Intn(P)
				time.Sleep(time.Duration(20+rng.Intn(300)) * time.Millisecond)
				cmds[killed].Process.Kill()
				r.Count("rounds_with_a_killed_writer", 1)
			}
			for i, c := range cmds {
				if err := c.Wait(); err != nil && i != killed {
					r.Inconclusive(fmt.Sprintf("worker exited abnormally: %v", err))
				}
			}
			var all []event
			for _, o := range outs {
				b, err := os.ReadFile(o)
				if err != nil {
					if killed >= 0 && o == outs[killed] {
						continue
					}
					r.Inconclusive("worker wrote no result: " + err.Error())
					continue
				}
				var wr workerResult
				json.Unmarshal(b, &wr)
				tot.Ops += wr.Ops
				tot.Puts += wr.Puts
				tot.HitsA += wr.HitsA
				tot.MissA += wr.MissA
				tot.MissAEarly += wr.MissAEarly
				tot.FailedPuts += wr.FailedPuts
				tot.TOutputsRemoved += wr.TOutputsRemoved
				tot.SShared += wr.SShared
				tot.SOwn += wr.SOwn
				tot.THits += wr.THits
				tot.TMisses += wr.TMisses
				tot.HitsB += wr.HitsB
				tot.MissB += wr.MissB
				for k, v := range wr.Hook {
					hook[k] += v
				}
				for _, v := range wr.Violations {
					seenV[v["kind"]]++
					if seenV[v["kind"]] <= 3 {
						r.Violation(fmt.Sprintf("%s round=%d seed=%d", v["kind"], round, r.Seed), v["kind"]+": "+v["detail"], ccase{v["kind"], round, P, G, v["detail"]})
					}
				}
				all = append(all, wr.Events...)
				os.Remove(o)
			}
			r.Eval(tot.Ops - r.Counter("ops_seen"))
			r.Count("ops_seen", tot.Ops-r.Counter("ops_seen"))
			// overlaps: lookups concurrent with a Put of the same id
			byID := map[int][]event{}
			for _, e := range all {
				byID[e.ID] = append(byID[e.ID], e)
			}
			totalEvents += int64(len(all))
			for _, evs := range byID {
				var puts []event
				for _, e := range evs {
					if e.Put {
						puts = append(puts, e)
					}
				}
				sort.Slice(puts, func(i, j int) bool { return puts[i].Call < puts[j].Call })
				for _, e := range evs {
					if e.Put {
						continue
					}
					for _, p := range puts {
						if p.Call > e.Ret {
							break
						}
						if p.Ret >= e.Call {
							overlaps++
							break
						}
					}
				}
			}
			// quiescent final sweep in this (fresh) process; first one more writer that fails on
			// every stored differing-content id: "once all writers have finished" includes writers
			// that finished with an error, and what they failed to store must not hide what was stored
			c, _ := cache.Open(dir)
			for k := nA; k < nA+nB; k++ {
				if flags.Load(k) == 1 {
					if _, _, err := c.Put(idB(k-nA), &failSource{r: bytes.NewReader(contentB(k-nA, int64(900_000_000+round)))}); err == nil {
						r.Violation(fmt.Sprintf("failing-source-accepted round=%d", round), "Put returned nil although its source failed in the copy pass", nil)
					}
					r.Count("failing_puts_before_the_final_sweep", 1)
				}
			}
			for k := 0; k < nA+nB; k++ {
				if flags.Load(k) != 1 {
					continue
				}
				var id cache.ActionID
				if k < nA {
					id = idA(k)
				} else {
					id = idB(k - nA)
				}
				data, ent, err := c.GetBytes(id)
				bad := ""
				switch {
				case err != nil:
					bad = fmt.Sprintf("after all writers finished id %d is not readable: %v", k, err)
				case sha256.Sum256(data) != [32]byte(ent.OutputID) || int64(len(data)) != ent.Size:
					bad = fmt.Sprintf("after all writers finished id %d: hash/size disagree with the entry", k)
				case k < nA && !bytes.Equal(data, contentA(k)):
					bad = fmt.Sprintf("after all writers finished id A%d holds foreign bytes", k)
				case k >= nA && validB(k-nA, data) != "":
					bad = fmt.Sprintf("after all writers finished id B%d: %s", k-nA, validB(k-nA, data))
				}
				if bad != "" {
					r.Violation(fmt.Sprintf("final-sweep round=%d id=%d seed=%d", round, k, r.Seed), bad, ccase{"final-sweep", round, P, G, bad})
				}
				r.Count("final_sweep_ids", 1)
			}
			// the T ids: whatever state the round left them in (entry with or without its output file - for two
			// of them the output is removed once more here), storing the content again makes the id readable
			for tk := 0; tk < nT; tk++ {
				want := contentT(tk)
				if tk%2 == 0 {
					h := sha256.Sum256(want)
					os.Remove(filepath.Join(dir, fmt.Sprintf("%02x", h[0]), fmt.Sprintf("%x-d", h)))
				}
				bad := ""
				if err := c.PutBytes(idT(tk), want); err != nil {
					bad = fmt.Sprintf("storing id T%d again after all writers finished failed: %v", tk, err)
				} else if data, _, err := c.GetBytes(idT(tk)); err != nil {
					bad = fmt.Sprintf("id T%d was stored again (Put returned nil) after its output file had been removed, but it is not readable: GetBytes: %v", tk, err)
				} else if !bytes.Equal(data, want) {
					bad = fmt.Sprintf("id T%d stored again: GetBytes returned %d foreign bytes", tk, len(data))
				} else if file, ent, err := c.GetFile(idT(tk)); err != nil {
					bad = fmt.Sprintf("id T%d stored again: GetFile: %v", tk, err)
				} else if fb, _ := os.ReadFile(file); !bytes.Equal(fb, want) || ent.Size != int64(len(want)) {
					bad = fmt.Sprintf("id T%d stored again: the file GetFile names holds %d bytes, entry size %d, content %d bytes", tk, len(fb), ent.Size, len(want))
				}
				if bad != "" {
					r.Violation(fmt.Sprintf("restored-id-unreadable round=%d id=T%d seed=%d", round, tk, r.Seed), bad, ccase{"restored-id-unreadable", round, P, G, bad})
				}
				r.Count("ids_stored_again_after_output_removal_in_the_final_sweep", 1)
			}
			flags.Close()
			os.RemoveAll(dir)
			os.Remove(flagsPath)
			if round < 2 {
				r.Sample(map[string]any{"kind": "round", "processes": P, "goroutines": G, "ops_per_goroutine": N, "events_logged": len(all)})
			}
		}
		r.DistinctBulk(overlaps + int64(rounds))
		r.Set("rounds", rounds)
		r.Set("operations", tot.Ops)
		r.Set("puts", tot.Puts)
		r.Set("lookups_overlapping_a_put_of_same_id", overlaps)
		r.Set("events_logged", totalEvents)
		r.Set("hits_identical_content_ids", tot.HitsA)
		r.Set("misses_identical_content_ids", tot.MissA)
		r.Set("misses_identical_before_any_put_completed", tot.MissAEarly)
		r.Set("puts_with_a_failing_source_during_the_rounds", tot.FailedPuts)
		r.Set("outputs_removed_under_a_live_index_entry", tot.TOutputsRemoved)
		r.Set("puts_making_two_ids_share_an_output_then_moving_one_on", []int64{tot.SShared, tot.SOwn})
		r.Set("lookups_of_such_ids_hit_and_missed", []int64{tot.THits, tot.TMisses})
		r.Set("hits_differing_content_ids", tot.HitsB)
		r.Set("misses_differing_content_ids", tot.MissB)
		r.Set("hook_hits", hook)
		r.ReportRaces(racePrefix)
		if overlaps < 50 || tot.HitsA < 100 || tot.HitsB < 100 {
			r.Inconclusive(fmt.Sprintf("too little contention observed (overlaps=%d)", overlaps))
		}
	})
}
