// C17: testscript honours its deadline - blocked commands are stopped and reported.
// Oracle: timestamps from one clock (CLOCK_MONOTONIC) taken by the harness and
// by the helper processes: when the interrupt arrived, when the subtest ended;
// verdict and log text; liveness of every helper pid. Lower bounds (never
// early) and the 30 s hard bound are load-independent; lateness is judged only
// in cases whose in-situ calibration was quiet, and only when systematic.
package main

import (
	"fmt"
	"math/rand"
	"os"
	"os/exec"
	"os/signal"
	"path/filepath"
	"sort"
	"strconv"
	"strings"
	"sync"
	"sync/atomic"
	"syscall"
	"time"

	"github.com/rogpeppe/go-internal/testscript"

	"verif/tsh"
	"verif/vlib"
)

type scriptSpec struct {
	Name string `json:"name"`
	Kind string `json:"kind"` // block, trapquit, ignorequit, exitat, early, bgblock
	Text string `json:"text"`
	Pid  string `json:"pidfile"`
}

type dcase struct {
	Kind     string       `json:"kind"`
	Case     int          `json:"case"`
	Deadline string       `json:"deadline_distance"`
	Grace    string       `json:"grace"`
	Scripts  []scriptSpec `json:"scripts"`
	Detail   string       `json:"detail"`
	Log      string       `json:"log,omitempty"`
}

const (
	eps      = 20 * time.Millisecond  // harness and RunT read "now" at slightly different instants
	sigma    = 150 * time.Millisecond // scheduling slack for the soft bounds
	hard     = 30 * time.Second
	quietMax = 100 * time.Millisecond
)

type softStat struct {
	quiet, breached int
	worst           time.Duration
	example         string
}

// lateIgnorer: a command that ignores the interrupt from its very first instruction (it inherits
// SIG_IGN, as a child of a process that ignores the signal does) and is started when the context
// has long expired - the second script under a T that runs subtests one after another. It must
// be interrupted at once, killed one grace period later, and RunT must still end about at the
// deadline. Runs alone (the disposition is process-wide) after all other cases.
func lateIgnorer(r *vlib.Run, base string, report func(kind string, c dcase)) {
	sleepBin, err := exec.LookPath("sleep")
	if err != nil {
		r.Count("late_ignorer_case_skipped_no_sleep_binary", 1)
		return
	}
	_ = sleepBin
	dir := filepath.Join(base, "lateignorer")
	os.MkdirAll(dir, 0o777)
	defer os.RemoveAll(dir)
	tag := fmt.Sprintf("86400.%06d", os.Getpid()%1000000)
	var files []string
	var specs []scriptSpec
	for i := 0; i < 2; i++ {
		f := filepath.Join(dir, fmt.Sprintf("ign%d.txt", i))
		text := "exec sleep " + tag + "\n"
		os.WriteFile(f, []byte(text), 0o666)
		files = append(files, f)
		specs = append(specs, scriptSpec{Name: fmt.Sprintf("ign%d", i), Kind: "born-ignoring", Text: text})
	}
	stray := func() (pids []int) {
		ents, _ := os.ReadDir("/proc")
		for _, e := range ents {
			pid, err := strconv.Atoi(e.Name())
			if err != nil {
				continue
			}
			b, _ := os.ReadFile(filepath.Join("/proc", e.Name(), "cmdline"))
			if strings.Contains(string(b), "sleep\x00"+tag) {
				pids = append(pids, pid)
			}
		}
		return pids
	}
	signal.Ignore(syscall.SIGQUIT)
	defer signal.Reset(syscall.SIGQUIT)
	dist := 1200 * time.Millisecond
	p := testscript.Params{Files: files, Deadline: time.Now().Add(dist)}
	start := vlib.MonoNow()
	root := tsh.NewRoot(tsh.StyleGoexit, false, false)
	finished := make(chan struct{})
	go func() {
		root.Run("batch", func(t testscript.T) { testscript.RunT(t, p) })
		close(finished)
	}()
	r.Eval(2)
	r.Count("late_ignorer_cases", 1)
	select {
	case <-finished:
	case <-time.After(dist + hard):
		report("not-finished-long-after-the-deadline", dcase{"not-finished-long-after-the-deadline", -1, dist.String(), "100ms", specs,
			fmt.Sprintf("%v after the deadline RunT has still not finished: a command that ignores the interrupt and was started after the context had expired was never killed (its processes: %v)", hard, stray()), ""})
		// end the run by hand: every process of this case is killed as it appears (a tree that ignores the
		// deadline altogether starts the second script's command only after the first one died)
		for i := 0; i < 150; i++ {
			for _, pid := range stray() {
				syscall.Kill(pid, syscall.SIGKILL)
			}
			select {
			case <-finished:
				return
			case <-time.After(200 * time.Millisecond):
			}
		}
		return
	}
	took := time.Duration(vlib.MonoNow() - start)
	for _, sub := range root.Subs[0].Subs {
		if v := sub.Verdict(); v != "fail" || !strings.Contains(sub.LogText(), "test timed out while running command") {
			report("blocked-script-not-failed", dcase{"blocked-script-not-failed", -1, dist.String(), "100ms", specs,
				fmt.Sprintf("script %s blocks in a command that ignores the interrupt; reported %s, log %q", sub.Name, v, sub.LogText()), sub.LogText()})
		}
	}
	if pids := stray(); len(pids) > 0 {
		report("process-left-alive", dcase{"process-left-alive", -1, dist.String(), "100ms", specs, fmt.Sprintf("sleep processes %v are still alive after RunT returned", pids), ""})
		for _, pid := range pids {
			syscall.Kill(pid, syscall.SIGKILL)
		}
	}
	r.Set("late_ignorer_case_took", took.String())
}

func main() {
	tsh.Main("C17", "exploration", 12*time.Minute, func(r *vlib.Run) {
		r.Rule("RunT calls with Params.Deadline 0.4 / 0.7 / 1.2 / 2 / 3 / 5 / 8 s ahead (round-robin) and 1-6 scripts each, mixing foreground commands that block for ever (die on the interrupt), trap the interrupt and exit, ignore the interrupt (must be killed), exit at about the moment the context expires, exit at once but leave a grandchild holding their output pipes across the expiry, block (or finish at once) with 256 KB of terminal input pending that they never read, scripts that finish early, scripts with SIGINT-terminable background jobs, and scripts blocked in 'wait' for a background job that never ends. Three ways of running them: subtests released as soon as RunT returned (plain), released 20-35% of the distance later (the parent test keeps working; the deadline stays where it is), and under a T that runs subtests one after another (scripts after the first blocked one start with the context already expired). Evaluations = scripts run; distinct non-trivial = distinct (deadline distance, multiset of script kinds) cases containing at least one blocked script.")
		r.Assume("grace = max(100 ms, (deadline - start)/20) as documented in RunT; eps = 20 ms for the difference between the harness' and RunT's reading of the clock; lateness (soft bounds, slack 150 ms) is judged only in cases whose calibration goroutine and calibration helper were never more than 100 ms late, and is a violation only when the same bound is breached, for one deadline distance, in >= 3 quiet cases and >= 80% of the quiet cases exercising it at that distance (the first script of every plain and delayed case traps or ignores the interrupt, so every distance has its samples); a regression that makes cleanup late by less than 150 ms is not detected")
		base := vlib.Scratch()
		rng := r.Rand("cases")
		ncases := r.Pick(56, 280)
		// grace is 100 ms up to a 2 s distance and 5% of the distance beyond: both regimes are needed
		distances := []time.Duration{400 * time.Millisecond, 700 * time.Millisecond, 1200 * time.Millisecond, 2 * time.Second, 3 * time.Second, 5 * time.Second, 8 * time.Second}
		var mu sync.Mutex
		seen := map[string]int{}
		soft := map[string]*softStat{}
		var noisy, quiet int64
		noisyCases := []string{}
		report := func(kind string, c dcase) {
			mu.Lock()
			seen[kind]++
			n := seen[kind]
			mu.Unlock()
			if n > 3 {
				return
			}
			r.Violation(fmt.Sprintf("%s case=%d deadline=%s seed=%d", kind, c.Case, c.Deadline, r.Seed), kind+": "+c.Detail, c)
		}
		type job struct {
			idx  int
			dist time.Duration
			spec []scriptSpec
			seed int64
			mode string // plain | delayed (the parent keeps working after RunT returned, the scripts start late) | sequential (a T that runs subtests one after another)
		}
		var jobs []job
		for i := 0; i < ncases; i++ {
			jb := job{idx: i, dist: distances[i%len(distances)], seed: rng.Int63(), mode: "plain"}
			switch (i / len(distances)) % 4 {
			case 1:
				if jb.dist >= 1200*time.Millisecond { // the start delay must exceed the slack of the soft bounds
					jb.mode = "delayed"
				}
			case 3:
				jb.mode = "sequential"
			}
			jobs = append(jobs, jb)
		}
		runCase := func(jb job) {
			crng := rand.New(rand.NewSource(jb.seed))
			dir := filepath.Join(base, fmt.Sprintf("case%d", jb.idx))
			os.MkdirAll(dir, 0o777)
			defer os.RemoveAll(dir)
			n := 1 + crng.Intn(6)
			kinds := []string{"block", "trapquit", "ignorequit", "exitat", "early", "bgblock", "bgwait", "block", "trapquit", "ignorequit", "orphanpipe", "ttyflood", "ttyearly"}
			var specs []scriptSpec
			var files []string
			anyBlocked := false
			// exitat needs the absolute expiry time: computed below once the deadline is fixed; placeholder first
			firstBlocked := -1
			for i := 0; i < n; i++ {
				k := kinds[crng.Intn(len(kinds))]
				if i == 0 && jb.mode != "sequential" {
					// the first script of every plain / delayed case reports when the interrupt arrived,
					// so that each deadline distance gets its timing samples whatever else is drawn
					k = []string{"trapquit", "ignorequit"}[jb.idx%2]
				}
				if k == "ttyearly" && (jb.dist < 1200*time.Millisecond || jb.mode == "sequential") {
					k = "ttyflood"
				}
				if k == "early" && jb.dist < 1200*time.Millisecond {
					k = "block" // an "early" script needs a budget (distance - 2 grace periods) that two process starts fit into even on a loaded machine
				}
				if jb.mode == "sequential" && i == 0 && jb.dist >= 1200*time.Millisecond && jb.idx%2 == 1 {
					// a script that finishes long before the deadline runs first: whatever its end
					// releases or cancels must leave the later scripts their full time
					k = "early"
				}
				if jb.mode == "sequential" {
					// scripts run one after another: those after the first blocked one only start
					// once the context has expired, so they are plain blockers (stopped at once)
					if firstBlocked >= 0 {
						k = "block"
					} else if i == n-1 && k == "early" {
						k = "trapquit"
					}
				}
				if k != "early" && k != "ttyearly" {
					anyBlocked = true
					if firstBlocked < 0 {
						firstBlocked = i
					}
				}
				specs = append(specs, scriptSpec{Name: fmt.Sprintf("s%d%s", i, k), Kind: k, Pid: filepath.Join(dir, fmt.Sprintf("pid%d", i))})
			}
			// calibration: how late do sleepers wake up during this case?
			var maxLate int64
			stopCal := make(chan struct{})
			var calWG sync.WaitGroup
			calWG.Add(1)
			go func() {
				defer calWG.Done()
				next := vlib.MonoNow()
				for {
					select {
					case <-stopCal:
						return
					default:
					}
					next += int64(5 * time.Millisecond)
					if d := next - vlib.MonoNow(); d > 0 {
						time.Sleep(time.Duration(d))
					}
					if late := vlib.MonoNow() - next; late > atomic.LoadInt64(&maxLate) {
						atomic.StoreInt64(&maxLate, late)
					}
					if vlib.MonoNow()-next > int64(time.Second) {
						next = vlib.MonoNow()
					}
				}
			}()
			monoStart := vlib.MonoNow()
			deadline := time.Now().Add(jb.dist)
			monoDeadline := monoStart + int64(jb.dist)
			graceHi := jb.dist / 20
			if graceHi < 100*time.Millisecond {
				graceHi = 100 * time.Millisecond
			}
			expiryLo := monoDeadline - 2*int64(graceHi) // the context cannot expire before this
			for i := range specs {
				sp := &specs[i]
				// the blocked foreground command may be negated ("! exec": being stopped at the
				// deadline is not the failure the script expected) and may be followed by
				// commands that start no process
				neg, tail := "", ""
				switch sp.Kind {
				case "block", "trapquit", "ignorequit":
					if crng.Intn(3) == 0 {
						neg = "! "
					}
					tail = []string{"", "", "! exists nosuchfile\n", "env X=1\n! stdout .\n"}[crng.Intn(4)]
				}
				switch sp.Kind {
				case "block":
					sp.Text = fmt.Sprintf("%sexec vhelper block %s\n%s", neg, sp.Pid, tail)
				case "trapquit":
					sp.Text = fmt.Sprintf("%sexec vhelper trapquit %s\n%s", neg, sp.Pid, tail)
				case "ignorequit":
					sp.Text = fmt.Sprintf("%sexec vhelper ignorequit %s\n%s", neg, sp.Pid, tail)
				case "exitat":
					sp.Text = fmt.Sprintf("exec vhelper exitat %s %d\n", sp.Pid, expiryLo+int64(crng.Intn(40)-20)*int64(time.Millisecond))
				case "ttyflood":
					// more terminal input than a pty buffers, for a command that never reads its terminal
					// and blocks: stopping it at the deadline must also get rid of the pending input
					sp.Text = fmt.Sprintf("ttyin flood.txt\nexec vhelper block %s\n-- flood.txt --\n%s", sp.Pid, strings.Repeat("0123456789abcdef0123456789abcde\n", 8000))
				case "ttyearly":
					// the same input for a command that finishes at once without reading it
					sp.Text = "ttyin flood.txt\nexec vhelper out early\nstdout early\n-- flood.txt --\n" + strings.Repeat("0123456789abcdef0123456789abcde\n", 8000)
				case "orphanpipe":
					// the command's own process exits at once, but a grandchild keeps its output pipes open
					// until one grace period after the earliest expiry: when the context fires there is
					// nothing left to signal, and the command ends by itself before the deadline
					sp.Text = fmt.Sprintf("exec vhelper orphan %s %d\n", sp.Pid, expiryLo+int64(graceHi))
				case "early":
					sp.Text = "exec vhelper out early\nstdout early\nexec vhelper sleepexit 30 0\n"
				case "bgwait":
					// blocked in "wait" for a background job that never ends by itself
					sp.Text = fmt.Sprintf("exec vhelper block %s &\nwait\n", sp.Pid)
				case "bgblock":
					sp.Text = fmt.Sprintf("exec vhelper block %s.bg &\nexec vhelper out started\nexec vhelper block %s\n", sp.Pid, sp.Pid)
				}
				f := filepath.Join(dir, sp.Name+".txt")
				os.WriteFile(f, []byte(sp.Text), 0o666)
				files = append(files, f)
			}
			p := testscript.Params{Files: files, Deadline: deadline}
			root := tsh.NewRoot(tsh.Style(jb.idx%2), false, jb.mode != "sequential")
			finished := make(chan struct{})
			var graceLo time.Duration
			if jb.mode == "sequential" {
				// RunT only returns when every script has run: it reads the clock within eps of monoStart
				graceLo = (jb.dist - eps) / 20
				go func() {
					root.Run("batch", func(t testscript.T) { testscript.RunT(t, p) })
					close(finished)
				}()
			} else {
				root.Run("batch", func(t testscript.T) { testscript.RunT(t, p) })
				monoAfterRunT := vlib.MonoNow()
				graceLo = time.Duration(monoDeadline-monoAfterRunT) / 20
				if jb.mode == "delayed" {
					// the parent test keeps working for a while: the scripts start late, the deadline stays
					time.Sleep(time.Duration(float64(jb.dist) * (0.2 + 0.15*crng.Float64())))
				}
				go func() { root.Subs[0].Release(); close(finished) }()
			}
			if graceLo < 100*time.Millisecond {
				graceLo = 100 * time.Millisecond
			}
			mk := func(kind, detail, log string) {
				report(kind, dcase{kind, jb.idx, jb.dist.String(), graceHi.String(), specs, detail, log})
			}
			hardHit := false
			select {
			case <-finished:
			case <-time.After(jb.dist + hard):
				hardHit = true
				var st []string
				for _, sub := range root.Subs[0].Subs {
					st = append(st, sub.Name+"="+sub.Verdict())
				}
				mk("not-finished-long-after-the-deadline", fmt.Sprintf("%v after the deadline the batch has still not finished: %v", hard, st), "")
			}
			batchEnd := vlib.MonoNow()
			close(stopCal)
			calWG.Wait()
			isQuiet := time.Duration(atomic.LoadInt64(&maxLate)) <= quietMax
			if isQuiet {
				atomic.AddInt64(&quiet, 1)
			} else {
				atomic.AddInt64(&noisy, 1)
				mu.Lock()
				noisyCases = append(noisyCases, fmt.Sprintf("case %d (%v, %s): calibration goroutine up to %v late", jb.idx, jb.dist, jb.mode, time.Duration(atomic.LoadInt64(&maxLate))))
				mu.Unlock()
			}
			softCheckT := func(name string, lateness, slack time.Duration, example string) {
				if !isQuiet {
					return
				}
				// judged per deadline distance: a defect may only show in one grace regime
				if jb.mode == "plain" {
					name = fmt.Sprintf("%s@%v", name, jb.dist)
				} else {
					name = fmt.Sprintf("%s@%s", name, jb.mode) // pooled over the distances
				}
				mu.Lock()
				st := soft[name]
				if st == nil {
					st = &softStat{}
					soft[name] = st
				}
				st.quiet++
				if lateness > slack {
					st.breached++
					if lateness > st.worst {
						st.worst, st.example = lateness, example
					}
				}
				mu.Unlock()
			}
			softCheck := func(name string, lateness time.Duration, example string) { softCheckT(name, lateness, sigma, example) }
			subs := map[string]*tsh.RecT{}
			for _, sub := range root.Subs[0].Subs {
				subs[sub.Name] = sub
			}
			for _, sp := range specs {
				r.Eval(1)
				sub := subs[sp.Name]
				if sub == nil {
					mk("script-not-run", "no subtest for "+sp.Name, "")
					continue
				}
				v := sub.Verdict()
				log := sub.LogText()
				readMono := func(f string) int64 {
					b, err := os.ReadFile(f)
					if err != nil {
						return 0
					}
					fs := strings.Fields(string(b))
					if len(fs) == 0 {
						return 0 // the helper was ended between creating the file and writing it
					}
					n, _ := strconv.ParseInt(fs[0], 10, 64)
					return n
				}
				switch sp.Kind {
				case "early", "ttyearly":
					if v != "pass" {
						if sub.EndMono < expiryLo-int64(eps) {
							mk("early-script-affected-by-deadline", fmt.Sprintf("script %s finishes long before the deadline but was reported as %s, %v before the context could have expired", sp.Name, v, time.Duration(expiryLo-sub.EndMono)), log)
						} else {
							// the machine was too slow for the script to finish inside its budget: nothing is decided
							r.Count("early_scripts_that_overran_their_budget", 1)
						}
					}
					continue
				case "exitat", "orphanpipe":
					if v == "unfinished" && !hardHit {
						mk("script-unfinished", sp.Name+" never finished", log)
					}
					continue
				}
				if hardHit {
					continue
				}
				if v != "fail" {
					mk("blocked-script-not-failed", fmt.Sprintf("script %s blocks until it is stopped at the deadline, but was reported as %s", sp.Name, v), log)
				} else if !strings.Contains(log, "test timed out while running command") {
					mk("timeout-not-reported", fmt.Sprintf("script %s was stopped at the deadline but its log lacks the timed-out message", sp.Name), log)
				}
				end := sub.EndMono
				switch sp.Kind {
				case "trapquit", "ignorequit":
					tq := readMono(sp.Pid + ".quit")
					if ready := readMono(sp.Pid + ".ready"); tq == 0 && (ready == 0 || ready > expiryLo-int64(eps)) {
						// the helper had not installed its handler by the time the context could expire
						// (process start-up took longer than the script's whole budget): the interrupt ended
						// it the default way, and nothing about its arrival time can be read off
						r.Count("helpers_not_ready_before_the_interrupt", 1)
						break
					}
					if tq == 0 {
						mk("interrupt-never-arrived", fmt.Sprintf("%s (%s) never received the interrupt signal (it was ended some other way)", sp.Name, sp.Kind), log)
						break
					}
					if tq < expiryLo-int64(eps) {
						mk("interrupted-too-early", fmt.Sprintf("%s was interrupted %v before the deadline; two grace periods are %v", sp.Name, time.Duration(monoDeadline-tq), 2*graceHi), log)
					}
					softCheck("interrupt-late", time.Duration(tq-(monoDeadline-2*int64(graceLo))), fmt.Sprintf("case %d %s: interrupt %v after deadline-2*grace", jb.idx, sp.Name, time.Duration(tq-(monoDeadline-2*int64(graceLo)))))
					if sp.Kind == "ignorequit" {
						// The helper's timestamp is taken when it handles the signal, which on a
						// loaded machine lags the moment testscript sent it: "ended less than a grace
						// period after the recorded interrupt" therefore decides nothing by itself
						// (false alarm seen once, 53 ms lag, while two other sweeps were running).
						// What is certain: the context cannot expire before expiryLo, so the kill
						// cannot come before expiryLo + one grace period.
						if end < expiryLo+int64(graceLo)-int64(eps) {
							mk("killed-too-early", fmt.Sprintf("%s ignores the interrupt; it was killed (script ended) %v before the deadline, but the interrupt cannot come earlier than %v before it and a grace period is at least %v", sp.Name, time.Duration(monoDeadline-end), 2*graceHi, graceLo), log)
						}
						softCheckT("kill-early", time.Duration(tq+int64(graceLo)-end), graceLo/2, fmt.Sprintf("case %d %s: ended %v after the recorded interrupt, a grace period is %v", jb.idx, sp.Name, time.Duration(end-tq), graceLo))
						softCheck("kill-late", time.Duration(end-(tq+int64(graceHi))), fmt.Sprintf("case %d %s: ended %v after interrupt+grace", jb.idx, sp.Name, time.Duration(end-(tq+int64(graceHi)))))
					}
				case "block", "bgblock", "bgwait", "ttyflood":
					if end < expiryLo-int64(eps) {
						mk("stopped-too-early", fmt.Sprintf("%s was stopped %v before the deadline; two grace periods are %v", sp.Name, time.Duration(monoDeadline-end), 2*graceHi), log)
					}
				}
			}
			if !hardHit {
				softCheck("batch-end-late", time.Duration(batchEnd-monoDeadline), fmt.Sprintf("case %d: batch ended %v after the deadline", jb.idx, time.Duration(batchEnd-monoDeadline)))
			}
			// no helper may survive
			pfs, _ := filepath.Glob(filepath.Join(dir, "pid*"))
			for _, pf := range pfs {
				if strings.HasSuffix(pf, ".quit") || strings.HasSuffix(pf, ".ready") || strings.Contains(filepath.Base(pf), ".tmp") {
					continue
				}
				if pid, alive := tsh.PidAlive(pf); alive {
					mk("process-left-alive", fmt.Sprintf("helper %d (%s) is still alive after RunT's subtests finished", pid, filepath.Base(pf)), "")
					syscall.Kill(pid, syscall.SIGKILL)
				}
			}
			if anyBlocked {
				var ks []string
				for _, s := range specs {
					ks = append(ks, s.Kind)
				}
				r.Distinct(fmt.Sprintf("%v|%s|%v", jb.dist, jb.mode, ks))
				r.Count("cases_"+jb.mode, 1)
				for _, s := range specs {
					if strings.HasPrefix(s.Text, "! exec") {
						r.Count("negated_blocked_commands", 1)
					}
				}
			}
			if jb.idx < 2 {
				r.Sample(map[string]any{"kind": "case", "mode": jb.mode, "deadline_distance": jb.dist.String(), "scripts": specs, "max_calibration_lateness": time.Duration(atomic.LoadInt64(&maxLate)).String()})
			}
		}
		vlib.Parallel(len(jobs), 8, func(i int) {
			if i < 8 {
				time.Sleep(time.Duration(i) * 60 * time.Millisecond) // no common start: eight cases beginning at once disturb each other's timing
			}
			runCase(jobs[i])
		})
		lateIgnorer(r, base, report)
		r.Set("cases", ncases)
		r.Set("cases_quiet", atomic.LoadInt64(&quiet))
		sort.Strings(noisyCases)
		r.Set("noisy_cases", noisyCases)
		r.Set("cases_noisy_soft_bounds_skipped", atomic.LoadInt64(&noisy))
		softOut := map[string]any{}
		for name, st := range soft {
			softOut[name] = map[string]any{"quiet_cases": st.quiet, "breached": st.breached, "worst": st.worst.String()}
			if st.quiet < 3 {
				r.Set("soft_bound_"+name, "inconclusive: fewer than 3 quiet cases")
				continue
			}
			if st.breached >= 3 && st.breached*5 >= st.quiet*4 {
				r.Violation("systematically-off "+name, fmt.Sprintf("soft bound %q breached in %d of %d quiet cases (slack %v, half a grace period for kill-early); worst: %s", name, st.breached, st.quiet, sigma, st.example), softOut[name])
			}
		}
		r.Set("soft_bounds", softOut)
		r.ReportRaces(filepath.Join(base, "race"))
		if esc := tsh.PanicEscapes.List(); len(esc) > 0 {
			r.Violation("panic-escaped "+esc[0], "a panic escaped a script run: "+esc[0], esc)
		}
	})
}
