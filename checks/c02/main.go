// C02: testscript word splitting, quoting and variable expansion are exact.
// Oracle: (1) a quoter that spells a word list as a script line in random
// equivalent ways - law: the words a command receives equal the words that
// were spelled; (2) a reference tokenizer/expander written from the statement,
// applied to generated raw lines; (3) an environment model (latest assignment
// wins) compared with Getenv and with what a real child process sees;
// (4) ${V@R} checked semantically: as a regexp it matches exactly the value.
package main

import (
	"encoding/hex"
	"fmt"
	"math/rand"
	"os"
	"path/filepath"
	"regexp"
	"sort"
	"strings"
	"sync"
	"time"
	"unicode/utf8"

	"github.com/rogpeppe/go-internal/testscript"

	"verif/tsh"
	"verif/vlib"
)

type probe struct {
	Kind string   // "argv" (custom command), "child" (exec vhelper argv), "childenv", "regexp"
	Want []string // expected words / NAME=value pairs
	Line string
	Env  map[string]string // expected Getenv view (argv probes)
	// acceptable alternative when the line contains an unquoted CR (the statement names blanks and tabs only)
	Alt []string
	// for Kind "regexp": Want[0] = value; got[0] = expansion of ${V@R}
}

type record struct {
	Args []string
	Env  map[string]string
	Out  string
}

type lcase struct {
	Kind   string   `json:"kind"`
	Script string   `json:"script"`
	Line   string   `json:"line"`
	Want   []string `json:"want"`
	Got    []string `json:"got"`
	Detail string   `json:"detail"`
}

var (
	run      *vlib.Run
	kindMu   sync.Mutex
	kindSeen = map[string]int{}
)

func limited(kind string) bool {
	kindMu.Lock()
	defer kindMu.Unlock()
	kindSeen[kind]++
	return kindSeen[kind] > 4
}

// ---------- generators ----------

var special = []byte{' ', '\t', '\r', '\'', '#', '$', '{', '}', '@', '\\', '=', '&', '!', '[', ']', '>', '-'}

func genWord(r *rand.Rand, allowNUL bool) string {
	n := r.Intn(8)
	if r.Intn(10) == 0 {
		n = 0
	}
	b := make([]byte, 0, n)
	for i := 0; i < n; i++ {
		switch r.Intn(5) {
		case 0, 1:
			b = append(b, special[r.Intn(len(special))])
		case 2:
			b = append(b, "abcXYZ019_"[r.Intn(10)])
		case 3:
			b = append(b, []byte("é世\xff\xc3")[r.Intn(7)])
		default:
			c := byte(r.Intn(256))
			if c == '\n' || (c == 0 && !allowNUL) {
				c = 'n'
			}
			b = append(b, c)
		}
	}
	return string(b)
}

func isNameChar(c byte) bool {
	return c == '_' || '0' <= c && c <= '9' || 'a' <= c && c <= 'z' || 'A' <= c && c <= 'Z'
}

func safeBare(c byte) bool {
	switch c {
	case ' ', '\t', '\r', '\'', '#', '$', '\n':
		return false
	}
	return true
}

// quoteWord spells w in one of the equivalent ways. env is the current
// variable model: substrings equal to a variable's value may be spelled as an
// expansion.
func quoteWord(r *rand.Rand, w string, env map[string]string, names []string) string {
	if w == "" {
		return "''"
	}
	whole := func() string { return "'" + strings.ReplaceAll(w, "'", "''") + "'" }
	if r.Intn(3) == 0 {
		return whole()
	}
	var sb strings.Builder
	lastQuoted := false
	i := 0
	for i < len(w) {
		// try an expansion spelling
		if len(names) > 0 && r.Intn(3) == 0 {
			n := names[r.Intn(len(names))]
			v := env[n]
			if v != "" && strings.HasPrefix(w[i:], v) {
				next := byte(0)
				if i+len(v) < len(w) {
					next = w[i+len(v)]
				}
				if r.Intn(2) == 0 || isNameChar(next) {
					sb.WriteString("${" + n + "}")
				} else {
					sb.WriteString("$" + n)
				}
				i += len(v)
				lastQuoted = false
				continue
			}
		}
		c := w[i]
		switch {
		case c == '$' && r.Intn(2) == 0:
			sb.WriteString("$$")
			lastQuoted = false
			i++
		case c == '/' && r.Intn(6) == 0:
			sb.WriteString("${/}")
			lastQuoted = false
			i++
		case c == ':' && r.Intn(3) == 0:
			sb.WriteString("${:}")
			lastQuoted = false
			i++
		case safeBare(c) && (lastQuoted || r.Intn(3) != 0):
			sb.WriteByte(c)
			lastQuoted = false
			i++
		default:
			if lastQuoted {
				// two quoted chunks must not touch ('' would read as a quote character):
				// fall back to quoting the whole word
				return whole()
			}
			// quoted chunk of 1..k bytes
			k := 1 + r.Intn(3)
			if i+k > len(w) {
				k = len(w) - i
			}
			sb.WriteString("'" + strings.ReplaceAll(w[i:i+k], "'", "''") + "'")
			lastQuoted = true
			i += k
		}
	}
	return sb.String()
}

func sepStr(r *rand.Rand) string {
	return []string{" ", "  ", "\t", " \t "}[r.Intn(4)]
}

// ---------- reference tokenizer / expander (from the statement) ----------

// refParse returns the words of line, ok=false for an unterminated quote.
// crSeparates selects the reading of an unquoted CR.
func refParse(line string, env map[string]string, crSeparates bool) (words []string, ok bool) {
	var cur strings.Builder
	inWord := false
	i := 0
	expandFrom := func(j int) (string, int) { // line[j] == '$'
		if j+1 >= len(line) {
			return "$", j + 1
		}
		c := line[j+1]
		switch {
		case c == '$':
			return "$", j + 2
		case c == '{':
			k := strings.IndexByte(line[j+2:], '}')
			if k < 0 {
				return "", len(line) // not generated
			}
			name := line[j+2 : j+2+k]
			if n, isR := strings.CutSuffix(name, "@R"); isR {
				return regexp.QuoteMeta(env[n]), j + 3 + k
			}
			switch name {
			case "/":
				return "/", j + 3 + k
			case ":":
				return ":", j + 3 + k
			}
			return env[name], j + 3 + k
		case isNameChar(c):
			k := j + 1
			for k < len(line) && isNameChar(line[k]) {
				k++
			}
			return env[line[j+1:k]], k
		}
		return "$", j + 1 // not generated
	}
	for i < len(line) {
		c := line[i]
		switch {
		case c == ' ' || c == '\t' || (c == '\r' && crSeparates):
			if inWord {
				words = append(words, cur.String())
				cur.Reset()
				inWord = false
			}
			i++
		case c == '#':
			if inWord {
				words = append(words, cur.String())
			}
			return words, true
		case c == '\'':
			inWord = true
			i++
			for {
				if i >= len(line) {
					return nil, false
				}
				if line[i] == '\'' {
					if i+1 < len(line) && line[i+1] == '\'' {
						cur.WriteByte('\'')
						i += 2
						continue
					}
					i++
					break
				}
				cur.WriteByte(line[i])
				i++
			}
		case c == '$':
			inWord = true
			v, next := expandFrom(i)
			cur.WriteString(v) // not re-split, not re-expanded
			i = next
		default:
			inWord = true
			cur.WriteByte(c)
			i++
		}
	}
	if inWord {
		words = append(words, cur.String())
	}
	return words, true
}

// genRawLine builds an arbitrary line from token-ish fragments (for the reference tokenizer).
func genRawLine(r *rand.Rand, names []string) string {
	frags := []string{"a", "b c", "'", "''", "'x y'", "'it''s'", "#", " #c", "$$", "${/}", "${:}", "\t", " ", "\r", "x=y", "'$A'", "'#'", "-", "é", "'\r'", "!", "[", "]"}
	var sb strings.Builder
	n := 1 + r.Intn(8)
	for i := 0; i < n; i++ {
		if len(names) > 0 && r.Intn(3) == 0 {
			nm := names[r.Intn(len(names))]
			switch r.Intn(3) {
			case 0:
				sb.WriteString("${" + nm + "}")
			case 1:
				sb.WriteString("${" + nm + "@R}")
			default:
				sb.WriteString("$" + nm + " ") // blank terminates the name
			}
			continue
		}
		sb.WriteString(frags[r.Intn(len(frags))])
	}
	return sb.String()
}

// ---------- script construction ----------

type script struct {
	name   string
	text   string
	probes []probe
}

var bgSpec = regexp.MustCompile(`^&([a-zA-Z_0-9]+&)?$`)

var varNames = []string{"A", "AB", "B", "VAR_1", "VAR_12", "x", "_u", "LONGER_NAME9", "DIR", "R", "VAR_R", "RR"} // incl. names that are prefixes of each other and names ending in the letters of the @R suffix // some names are prefixes of others

func genValue(r *rand.Rand) string {
	switch r.Intn(4) {
	case 0:
		return []string{"plain", "two words", "it's", "$A", "${B}", "a#b", "tab\there", "x'y'z", ".*[(", "a\\b", "", "é=1", "  lead", "$$", "-"}[r.Intn(15)]
	default:
		w := genWord(r, false)
		return w
	}
}

// setupMode: what the Params.Setup hook does for script number idx.
func setupMode(idx int) int { return idx % 3 }

func genScript(r *rand.Rand, idx int) *script {
	s := &script{name: fmt.Sprintf("s%d", idx)}
	env := map[string]string{}
	var names []string
	var sb strings.Builder
	add := func(line string, p *probe) {
		sb.WriteString(line + "\n")
		if p != nil {
			p.Line = line
			s.probes = append(s.probes, *p)
		}
	}
	snapshot := func() map[string]string {
		m := map[string]string{}
		for k, v := range env {
			m[k] = v
		}
		return m
	}
	// what Params.Setup does to the default variable HOME for this script (see setupMode):
	// 0 nothing (HOME=/no-home), 1 removes it from env.Vars, 2 appends an overriding HOME=/setup-home
	home, homeSet := "/no-home", true
	switch setupMode(idx) {
	case 1:
		home, homeSet = "", false
	case 2:
		home = "/setup-home"
	}
	homeAt := r.Intn(12)
	nlines := 12 + r.Intn(16)
	for l := 0; l < nlines; l++ {
		if l == homeAt {
			// a default variable as the Setup hook left it: what the script expands and what a
			// started program sees must agree
			add("argv a${HOME}b $HOME", &probe{Kind: "argv", Want: []string{"a" + home + "b", home}, Env: snapshot()})
			add("exec vhelper getenv HOME", nil)
			if homeSet {
				add("grab", &probe{Kind: "childenv", Want: []string{"HOME=" + home}})
			} else {
				add("grab", &probe{Kind: "childenv", Want: []string{"HOME!"}})
			}
		}
		switch k := r.Intn(10); {
		case k < 3: // env assignment(s), spelled through the quoter
			na := 1 + r.Intn(2)
			var ws []string
			pending := map[string]string{}
			var order []string
			for j := 0; j < na; j++ {
				n := varNames[r.Intn(len(varNames))]
				v := genValue(r)
				ws = append(ws, quoteWord(r, n+"="+v, env, names))
				pending[n] = v
				order = append(order, n)
			}
			for _, n := range order {
				if _, had := env[n]; !had {
					names = append(names, n)
				}
				env[n] = pending[n]
			}
			add("env"+sepStr(r)+strings.Join(ws, sepStr(r)), nil)
		case k < 6: // words through the quoter, observed by the custom command
			nw := r.Intn(6)
			var want, sp []string
			for j := 0; j < nw; j++ {
				w := genWord(r, true)
				if len(names) > 0 && r.Intn(3) == 0 {
					w = genWord(r, true) + env[names[r.Intn(len(names))]] + genWord(r, true)
				}
				want = append(want, w)
				sp = append(sp, quoteWord(r, w, env, names))
			}
			line := spellCmd(r) + sepStr(r) + strings.Join(sp, sepStr(r))
			if r.Intn(4) == 0 {
				line += sepStr(r) + "# trailing comment 'with quote"
			}
			add(line, &probe{Kind: "argv", Want: want, Env: snapshot()})
		case k < 7: // the same through a real child process
			nw := 1 + r.Intn(4)
			var want, sp []string
			for j := 0; j < nw; j++ {
				w := genWord(r, false)
				want = append(want, w)
				sp = append(sp, quoteWord(r, w, env, names))
			}
			// exec treats a final word "&" / "&name&" as its background marker (documented): keep it from being last
			if bgSpec.MatchString(want[len(want)-1]) {
				want = append(want, "end")
				sp = append(sp, "end")
			}
			cmd := []string{"exec vhelper argv", "vhelper argv"}[r.Intn(2)]
			add(cmd+" "+strings.Join(sp, sepStr(r)), nil)
			add("grab", &probe{Kind: "child", Want: want})
		case k < 8: // child environment
			if len(names) == 0 {
				continue
			}
			var want []string
			var q []string
			for _, n := range names {
				want = append(want, n+"="+env[n])
				q = append(q, n)
			}
			q = append(q, "NEVER_SET_VAR")
			want = append(want, "NEVER_SET_VAR!")
			add("exec vhelper getenv "+strings.Join(q, " "), nil)
			add("grab", &probe{Kind: "childenv", Want: want})
		case k < 9: // ${V@R}
			if len(names) == 0 {
				continue
			}
			n := names[r.Intn(len(names))]
			if !utf8.ValidString(env[n]) {
				continue // Go regular expressions are UTF-8 text; values with invalid UTF-8 have no regexp form
			}
			add("argv ${"+n+"@R}", &probe{Kind: "regexp", Want: []string{env[n]}, Env: snapshot()})
		default: // raw line against the reference tokenizer
			raw := genRawLine(r, names)
			w1, ok1 := refParse(raw, env, true)
			if !ok1 {
				continue // unterminated quote: the line fails the script; exercised by C01
			}
			w2, _ := refParse(raw, env, false)
			p := &probe{Kind: "argv", Want: w1, Env: snapshot()}
			if strings.Join(w1, "\x00") != strings.Join(w2, "\x00") {
				p.Alt = w2
			}
			add(spellCmd(r)+" "+raw, p)
		}
	}
	s.text = sb.String()
	return s
}

// spellCmd spells the command word argv, which starts at byte 0 of its line, with or without quoted
// chunks: the first word of a line is a word like any other.
func spellCmd(r *rand.Rand) string {
	if r.Intn(3) != 0 {
		return "argv"
	}
	return []string{"'argv'", "ar'gv'", "a'rg'v", "argv''", "''argv", "arg'v'", "a''rgv"}[r.Intn(7)]
}

// ---------- execution ----------

type recorder struct {
	mu   sync.Mutex
	recs map[string][]record
}

func (rc *recorder) add(name string, r record) {
	rc.mu.Lock()
	rc.recs[name] = append(rc.recs[name], r)
	rc.mu.Unlock()
}

func eqWords(a, b []string) bool {
	if len(a) != len(b) {
		return false
	}
	for i := range a {
		if a[i] != b[i] {
			return false
		}
	}
	return true
}

func qs(ws []string) string {
	var q []string
	for _, w := range ws {
		q = append(q, fmt.Sprintf("%q", w))
	}
	return "[" + strings.Join(q, " ") + "]"
}

func neighbours(v string) []string {
	out := []string{v + v, v + "x", "x" + v, "", v + "\n"}
	b := []byte(v)
	for i := range b {
		c := append([]byte{}, b...)
		c[i] ^= 1
		out = append(out, string(c))
		out = append(out, string(append(append([]byte{}, b[:i]...), b[i+1:]...)))
		if strings.ContainsRune(`.*+?()[]{}|^$\`, rune(b[i])) {
			c2 := append([]byte{}, b...)
			c2[i] = 'q'
			out = append(out, string(c2))
		}
	}
	return out
}

func main() {
	tsh.Main("C02", "exploration", 10*time.Minute, func(r *vlib.Run) {
		run = r
		r.Rule("scripts of 12-27 lines: env assignments (names from a 6-name pool, values with blanks, quotes, $, #, CR, arbitrary bytes; re-assignments), word lists spelled by a random quoter (bare / whole-word quotes / partial quotes / doubled quotes / $$ / ${/} / ${:} / $NAME / ${NAME} spellings of substrings equal to a variable's value) and observed by a custom command (args + Getenv), by a real child process (argv, environment), ${V@R} probes, and raw lines against the reference tokenizer; in a third of the probe lines the command word itself (at byte 0 of the line) is spelled with quoted chunks. Non-trivial = distinct probed line containing a quote, $, # or CR.")
		r.Assume("an unquoted CR may or may not separate words (the statement names blanks and tabs only; the implementation also splits at CR for CRLF scripts): both readings are accepted; $ forms other than $NAME ${NAME} ${NAME@R} $$ ${/} ${:} are not generated")
		base := vlib.Scratch()
		nscripts := r.Pick(600, 20000)
		batch := 50
		rng := r.Rand("scripts")
		var nProbes, nChild, nRegexp int
		for b := 0; b < nscripts; b += batch {
			dir := filepath.Join(base, fmt.Sprintf("b%d", b))
			os.MkdirAll(dir, 0o777)
			var scripts []*script
			var files []string
			for i := b; i < b+batch && i < nscripts; i++ {
				s := genScript(rng, i)
				scripts = append(scripts, s)
				f := filepath.Join(dir, s.name+".txt")
				os.WriteFile(f, []byte(s.text), 0o666)
				files = append(files, f)
			}
			rc := &recorder{recs: map[string][]record{}}
			p := testscript.Params{
				Files: files,
				Setup: func(env *testscript.Env) error {
					var idx int
					fmt.Sscanf(filepath.Base(env.WorkDir), "script-s%d", &idx)
					switch setupMode(idx) {
					case 1: // a hermetic hook: the default HOME is taken out
						var vars []string
						for _, v := range env.Vars {
							if !strings.HasPrefix(v, "HOME=") {
								vars = append(vars, v)
							}
						}
						env.Vars = vars
					case 2: // a later entry overrides an earlier one
						env.Vars = append(env.Vars, "HOME=/setup-home")
					}
					return nil
				},
				Cmds: map[string]func(ts *testscript.TestScript, neg bool, args []string){
					"argv": func(ts *testscript.TestScript, neg bool, args []string) {
						env := map[string]string{}
						for _, n := range varNames {
							env[n] = ts.Getenv(n)
						}
						rc.add(ts.Name(), record{Args: append([]string{}, args...), Env: env})
					},
					"grab": func(ts *testscript.TestScript, neg bool, args []string) {
						rc.add(ts.Name(), record{Out: ts.ReadFile("stdout")})
					},
				},
			}
			root := tsh.NewRoot(tsh.Style(b/batch%2), false, false)
			root.Run("batch", func(t testscript.T) { testscript.RunT(t, p) })
			root.Release()
			verdicts := map[string]*tsh.RecT{}
			for _, sub := range root.Subs[0].Subs {
				verdicts[sub.Name] = sub
			}
			for _, s := range scripts {
				recs := rc.recs[s.name]
				sub := verdicts[s.name]
				fail := func(kind string, pr probe, got []string, detail string) {
					if limited(kind) {
						run.Count("suppressed_duplicate_reports_"+kind, 1)
						return
					}
					run.Violation(fmt.Sprintf("%s line=%q", kind, pr.Line), fmt.Sprintf("%s: line %q: %s", kind, pr.Line, detail), lcase{kind, s.text, pr.Line, pr.Want, got, detail})
				}
				if sub == nil || sub.Verdict() != "pass" {
					lg := ""
					if sub != nil {
						lg = sub.LogText()
					}
					if !limited("script-did-not-pass") {
						run.Violation(fmt.Sprintf("script-did-not-pass %s seed=%d", s.name, run.Seed), "a script made only of well-formed lines did not pass: "+tailN(lg, 600), lcase{"script-did-not-pass", s.text, "", nil, nil, tailN(lg, 2000)})
					}
					continue
				}
				if len(recs) != len(s.probes) {
					run.Inconclusive(fmt.Sprintf("script %s: %d probes expected, %d recorded", s.name, len(s.probes), len(recs)))
					continue
				}
				for i, pr := range s.probes {
					rec := recs[i]
					run.Eval(1)
					nProbes++
					if strings.ContainsAny(pr.Line, "'$#\r") {
						run.Distinct(pr.Line)
					}
					switch pr.Kind {
					case "argv":
						if !eqWords(rec.Args, pr.Want) && !(pr.Alt != nil && eqWords(rec.Args, pr.Alt)) {
							fail("words-differ", pr, rec.Args, fmt.Sprintf("command received %s, the documented rules give %s", qs(rec.Args), qs(pr.Want)))
						}
						for n, v := range pr.Env {
							if rec.Env[n] != v {
								fail("getenv-differs", pr, nil, fmt.Sprintf("Getenv(%s) = %q, latest assignment was %q", n, rec.Env[n], v))
							}
						}
					case "child":
						nChild++
						var got []string
						for _, l := range strings.Split(strings.TrimSuffix(rec.Out, "\n"), "\n") {
							if rec.Out == "" {
								break
							}
							b, _ := hex.DecodeString(l)
							got = append(got, string(b))
						}
						if !eqWords(got, pr.Want) {
							fail("child-argv-differs", pr, got, fmt.Sprintf("child process received %s, the line spells %s", qs(got), qs(pr.Want)))
						}
					case "childenv":
						nChild++
						var got []string
						for _, l := range strings.Split(strings.TrimSuffix(rec.Out, "\n"), "\n") {
							if n, hv, ok := strings.Cut(l, "="); ok {
								b, _ := hex.DecodeString(hv)
								got = append(got, n+"="+string(b))
							} else {
								got = append(got, l)
							}
						}
						w := append([]string{}, pr.Want...)
						sort.Strings(w)
						g := append([]string{}, got...)
						sort.Strings(g)
						if !eqWords(g, w) {
							fail("child-environment-differs", pr, got, fmt.Sprintf("child saw %s, script variables are %s", qs(g), qs(w)))
						}
					case "regexp":
						nRegexp++
						v := pr.Want[0]
						if len(rec.Args) != 1 && !(v == "" && len(rec.Args) <= 1) {
							fail("regexp-expansion-split", pr, rec.Args, fmt.Sprintf("${V@R} expanded to %d words", len(rec.Args)))
							continue
						}
						e := ""
						if len(rec.Args) == 1 {
							e = rec.Args[0]
						}
						re, err := regexp.Compile("^(?:" + e + ")$")
						if err != nil {
							fail("regexp-expansion-invalid", pr, rec.Args, fmt.Sprintf("${V@R} for value %q expanded to %q which is not a valid regular expression: %v", v, e, err))
							continue
						}
						if !re.MatchString(v) {
							fail("regexp-expansion-does-not-match-value", pr, rec.Args, fmt.Sprintf("${V@R} for value %q expanded to %q which does not match the value", v, e))
						}
						for _, nb := range neighbours(v) {
							if nb != v && re.MatchString(nb) {
								fail("regexp-expansion-matches-more", pr, rec.Args, fmt.Sprintf("${V@R} for value %q expanded to %q which also matches %q", v, e, nb))
								break
							}
						}
					}
				}
				if s.name == "s0" || s.name == "s1" {
					t := s.text
					if len(t) > 700 {
						t = t[:700]
					}
					r.Sample(map[string]any{"kind": "script", "text": t})
				}
			}
			os.RemoveAll(dir)
		}
		r.Set("scripts", nscripts)
		r.Set("probed_lines", nProbes)
		r.Set("child_process_probes", nChild)
		r.Set("regexp_probes", nRegexp)
		if esc := tsh.PanicEscapes.List(); len(esc) > 0 {
			r.Violation("panic-escaped "+esc[0], "a panic escaped a script run: "+esc[0], esc)
		}
	})
}

func tailN(s string, n int) string {
	if len(s) > n {
		return s[len(s)-n:]
	}
	return s
}
