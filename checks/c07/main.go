// C07: lockedfile Read/Write/Transform linearize; a failing Transform keeps the old contents.
// Oracles: (schedules) client-boundary histories with one monotonic clock,
// unique self-describing payloads, checked against a register model with
// porcupine (per file); torn/unknown contents are violations on sight; an
// O(n log n) chain checker for large Transform/Read histories.
// (faults) strace errno injection at every file operation of one Transform,
// RLIMIT_FSIZE short writes, failing function: afterwards the file must hold
// exactly the old (error) or the new (nil) contents.
package main

import (
	"bytes"
	"encoding/json"
	"errors"
	"fmt"
	"io"
	"io/fs"
	"math/rand"
	"os"
	"os/exec"
	"path/filepath"
	"runtime"
	"sort"
	"strconv"
	"strings"
	"sync"
	"sync/atomic"
	"time"

	"github.com/anishathalye/porcupine"
	"github.com/rogpeppe/go-internal/lockedfile"

	"verif/gen/payload"
	"verif/vlib"
)

// ---------- payload identification ----------

var payloadSizes = []int{24, 100, 4095, 4096, 4097, 70000, 256 << 10}

// ident returns the identity "tag/seed" of a complete payload, or a
// classification of what is wrong with it.
func ident(b []byte) (id string, problem string) {
	if len(b) == 0 {
		if allowEmpty {
			// rounds in which empty contents are written on purpose: "EMPTY" is an ordinary
			// (not unique) value of the register, and the model decides whether it may be seen
			return "EMPTY", ""
		}
		return "", "empty"
	}
	parts := strings.SplitN(string(b[:min(len(b), 64)]), "|", 4)
	if len(parts) < 4 {
		return "", "unknown (no payload header)"
	}
	seed, e1 := strconv.ParseInt(parts[1], 10, 64)
	size, e2 := strconv.Atoi(parts[2])
	if e1 != nil || e2 != nil {
		return "", "unknown (bad header)"
	}
	want := payload.Make(parts[0], seed, size)
	switch {
	case bytes.Equal(b, want):
		return parts[0] + "/" + parts[1], ""
	case len(b) < size && bytes.Equal(b, want[:len(b)]):
		return "", fmt.Sprintf("truncated (%d of %d bytes of %s/%s)", len(b), size, parts[0], parts[1])
	case len(b) > size && bytes.Equal(b[:size], want):
		return "", fmt.Sprintf("%s/%s followed by %d foreign bytes", parts[0], parts[1], len(b)-size)
	default:
		return "", fmt.Sprintf("mixed (header of %s/%s, %d bytes, body differs)", parts[0], parts[1], len(b))
	}
}

// allowEmpty: this round writes empty contents on purpose (see ident).
var allowEmpty bool

// ---------- worker ----------

const (
	opRead = iota
	opWrite
	opTransform
)

type event struct {
	Client  int    `json:"c"`
	File    int    `json:"f"`
	Op      int    `json:"op"`
	Arg     string `json:"arg,omitempty"` // id written (Write / Transform)
	Saw     string `json:"saw,omitempty"` // id seen by the Transform function
	Val     string `json:"val,omitempty"` // id read
	Failed  bool   `json:"failed,omitempty"`
	Call    int64  `json:"call"`
	Ret     int64  `json:"ret"`
	Corrupt string `json:"corrupt,omitempty"`
	Err     string `json:"err,omitempty"`
}

type workerOut struct {
	Events []event          `json:"events"`
	Hook   map[string]int64 `json:"hook"`
}

func worker() {
	dir := os.Getenv("C07_DIR")
	seed, _ := strconv.ParseInt(os.Getenv("C07_SEED"), 10, 64)
	G, _ := strconv.Atoi(os.Getenv("C07_G"))
	K, _ := strconv.Atoi(os.Getenv("C07_K"))
	F, _ := strconv.Atoi(os.Getenv("C07_F"))
	wid, _ := strconv.Atoi(os.Getenv("C07_WID"))
	noBlindWrites := os.Getenv("C07_CHAIN") == "1"
	allowEmpty = os.Getenv("C07_EMPTY") == "1"
	writeEmpty := allowEmpty
	absent := os.Getenv("C07_ABSENT") == "1"
	if absent {
		// the files of this round do not exist when the clients are released. "No file" and "empty file" are
		// one value (EMPTY, nothing published yet): creating the file and taking its lock are two steps,
		// so a Read that overlaps the first Write may legitimately find the file empty
		allowEmpty = true
	}
	words, err := vlib.OpenSharedWords(filepath.Join(dir, "words"), 8)
	if err != nil {
		fmt.Fprintln(os.Stderr, err)
		os.Exit(2)
	}
	var mu sync.Mutex
	out := workerOut{Hook: map[string]int64{}}
	var hookCtr uint64
	lockedfile.VerifSetHook(func(point string) {
		n := atomic.AddUint64(&hookCtr, 1)
		mu.Lock()
		out.Hook[point]++
		mu.Unlock()
		x := (n*0x9e3779b97f4a7c15 + uint64(seed)) >> 33
		switch x % 6 {
		case 0:
			time.Sleep(time.Duration(x%1500) * time.Microsecond)
		case 1:
			runtime.Gosched()
		}
	})
	if wid%2 == 0 {
		// a daemon-style process: descriptor 0 is free, so files opened next may land on it
		os.Stdin.Close()
	}
	for words.Load(7) == 0 {
		time.Sleep(200 * time.Microsecond)
	}
	var wg sync.WaitGroup
	var serial int64
	for g := 0; g < G; g++ {
		wg.Add(1)
		go func(g int) {
			defer wg.Done()
			client := wid*100 + g
			rng := rand.New(rand.NewSource(seed*131 + int64(g)))
			var evs []event
			for i := 0; i < K; i++ {
				fi := rng.Intn(F)
				path := filepath.Join(dir, fmt.Sprintf("f%d", fi))
				if !absent && rng.Intn(3) == 0 {
					// the same file under another name: a symbolic link to it
					path = filepath.Join(dir, fmt.Sprintf("l%d", fi))
				}
				ev := event{Client: client, File: fi}
				mk := func() (string, []byte) {
					s := int64(wid)*10_000_000 + atomic.AddInt64(&serial, 1)
					tag := fmt.Sprintf("w%d", wid)
					if writeEmpty && rng.Intn(4) == 0 {
						return "EMPTY", nil
					}
					return fmt.Sprintf("%s/%d", tag, s), payload.Make(tag, s, payloadSizes[rng.Intn(len(payloadSizes))])
				}
				r := rng.Intn(10)
				switch {
				case r < 4: // Read
					ev.Op = opRead
					var b []byte
					var err error
					ev.Call = vlib.MonoNow()
					if rng.Intn(3) == 0 {
						// slow reader: Open + delayed ReadAll under the read lock
						var f *lockedfile.File
						f, err = lockedfile.Open(path)
						if err == nil {
							time.Sleep(time.Duration(rng.Intn(300)) * time.Microsecond)
							b, err = io.ReadAll(f)
							f.Close()
						}
					} else {
						b, err = lockedfile.Read(path)
					}
					ev.Ret = vlib.MonoNow()
					if err != nil && absent && errors.Is(err, fs.ErrNotExist) {
						ev.Val = "EMPTY"
					} else if err != nil {
						ev.Err = err.Error()
					} else if id, prob := ident(b); prob != "" {
						ev.Corrupt = prob
					} else {
						ev.Val = id
					}
				case r < 6 && !noBlindWrites: // Write
					ev.Op = opWrite
					id, data := mk()
					ev.Arg = id
					ev.Call = vlib.MonoNow()
					err := lockedfile.Write(path, bytes.NewReader(data), 0o666)
					ev.Ret = vlib.MonoNow()
					if err != nil {
						ev.Err = err.Error()
					}
				default: // Transform
					ev.Op = opTransform
					id, data := mk()
					ev.Arg = id
					fail := rng.Intn(7) == 0
					ev.Call = vlib.MonoNow()
					err := lockedfile.Transform(path, func(old []byte) ([]byte, error) {
						sid, prob := ident(old)
						if prob != "" {
							ev.Corrupt = "function received " + prob
						}
						ev.Saw = sid
						if fail {
							return nil, errors.New("injected function error")
						}
						return data, nil
					})
					ev.Ret = vlib.MonoNow()
					if fail {
						ev.Failed = true
						if err == nil {
							ev.Err = "Transform returned nil although its function returned an error"
						}
					} else if err != nil {
						ev.Err = err.Error()
					}
				}
				evs = append(evs, ev)
			}
			mu.Lock()
			out.Events = append(out.Events, evs...)
			mu.Unlock()
		}(g)
	}
	wg.Wait()
	b, _ := json.Marshal(&out)
	os.WriteFile(os.Getenv("C07_OUT"), b, 0o666)
}

// ---------- porcupine model ----------

type pin struct {
	Op  int
	Arg string
}
type pout struct {
	Val, Saw string
	Failed   bool
}

var model = porcupine.Model{
	Init: func() any { return "init/0" },
	Step: func(st, in, out any) (bool, any) {
		s := st.(string)
		i := in.(pin)
		o := out.(pout)
		switch i.Op {
		case opWrite:
			return true, i.Arg
		case opRead:
			return o.Val == s, s
		default:
			if o.Saw != s {
				return false, s
			}
			if o.Failed {
				return true, s
			}
			return true, i.Arg
		}
	},
	Equal: func(a, b any) bool { return a.(string) == b.(string) },
	DescribeOperation: func(in, out any) string {
		i := in.(pin)
		o := out.(pout)
		switch i.Op {
		case opWrite:
			return "Write(" + i.Arg + ")"
		case opRead:
			return "Read -> " + o.Val
		}
		if o.Failed {
			return "Transform(saw " + o.Saw + ", function failed)"
		}
		return "Transform(saw " + o.Saw + " -> " + i.Arg + ")"
	},
}

type hcase struct {
	Kind    string  `json:"kind"`
	Round   int     `json:"round"`
	File    int     `json:"file"`
	Detail  string  `json:"detail"`
	History []event `json:"history,omitempty"`
}

// chainCheck: Transform/Read-only histories. The successful Transforms form the
// version order themselves; verify single chain, reads on the chain and real-time freshness.
func chainCheck(evs []event) string {
	next := map[string]string{} // saw -> new
	retOf := map[string]int64{"init/0": 0}
	for _, e := range evs {
		if e.Op == opTransform && !e.Failed {
			if other, dup := next[e.Saw]; dup {
				return fmt.Sprintf("lost update: two successful Transforms both saw %s (they wrote %s and %s)", e.Saw, other, e.Arg)
			}
			next[e.Saw] = e.Arg
			retOf[e.Arg] = e.Ret
		}
	}
	pos := map[string]int{"init/0": 0}
	order := []string{"init/0"}
	cur := "init/0"
	for {
		n, ok := next[cur]
		if !ok {
			break
		}
		pos[n] = len(order)
		order = append(order, n)
		cur = n
	}
	if len(order)-1 != len(next) {
		return fmt.Sprintf("the successful Transforms do not form one chain from the initial contents (%d of %d reachable)", len(order)-1, len(next))
	}
	// prefix maximum of return times along the chain: version i was completely written at retOf[order[i]]
	type vr struct {
		ret int64
		pos int
	}
	var finished []vr
	for i, v := range order {
		finished = append(finished, vr{retOf[v], i})
	}
	sort.Slice(finished, func(i, j int) bool { return finished[i].ret < finished[j].ret })
	check := func(what string, seen string, call int64) string {
		p, ok := pos[seen]
		if !ok {
			return fmt.Sprintf("%s observed %s which no successful Transform wrote", what, seen)
		}
		// newest version whose Transform had returned before this operation was called
		newest := 0
		for _, f := range finished {
			if f.ret >= call {
				break
			}
			if f.pos > newest {
				newest = f.pos
			}
		}
		if p < newest {
			return fmt.Sprintf("%s observed %s (version %d) although version %d (%s) had been completely written before it began", what, seen, p, newest, order[newest])
		}
		return ""
	}
	for _, e := range evs {
		switch {
		case e.Op == opRead:
			if d := check("a Read", e.Val, e.Call); d != "" {
				return d
			}
		case e.Op == opTransform && e.Failed:
			if d := check("a (failing) Transform's function", e.Saw, e.Call); d != "" {
				return d
			}
		}
	}
	return ""
}

// ---------- fault injection on a single Transform ----------

type fcase struct {
	Kind   string   `json:"kind"`
	OldLen int      `json:"old_len"`
	NewLen int      `json:"new_len"`
	Fault  string   `json:"fault"`
	Trace  []string `json:"trace,omitempty"`
	Detail string   `json:"detail"`
}

var tErrno = map[string][]string{
	"openat":    {"EACCES"},
	"flock":     {"ENOLCK"},
	"read":      {"EIO"},
	"pwrite64":  {"ENOSPC", "EIO"},
	"ftruncate": {"EIO", "ENOSPC"},
	"fstat":     {"EIO"},
	"close":     {"EIO"},
}

var nFaultRuns, nRolledBack, nCompleted, nWriteErr int64

// cutReader delivers the first cut bytes of data and then fails.
type cutReader struct {
	data []byte
	cut  int
	pos  int
}

var errCut = errors.New("injected failure of the content reader")

func (c *cutReader) Read(p []byte) (int, error) {
	if c.pos >= c.cut {
		return 0, errCut
	}
	n := copy(p, c.data[c.pos:c.cut])
	c.pos += n
	return n, nil
}

// writeFaults: a Write whose content cannot be copied completely must say so. (What such a Write leaves in
// the file is not the property's business; that it is never reported as a Write that finished is: a Read
// would otherwise return the truncated contents of a "successful" Write.)
func writeFaults(r *vlib.Run, base string) {
	dir := filepath.Join(base, "writefaults")
	os.MkdirAll(dir, 0o777)
	defer os.RemoveAll(dir)
	n := 0
	for _, oldLen := range []int{0, 300, 70000} {
		for _, newLen := range []int{1, 100, 5000, 70000, 300000} {
			for _, cut := range []int{0, 1, newLen / 2, newLen - 1} {
				if cut >= newLen || cut < 0 {
					continue
				}
				file := filepath.Join(dir, fmt.Sprintf("w%d", n))
				n++
				if oldLen > 0 {
					os.WriteFile(file, payload.Make("old", int64(oldLen), oldLen), 0o666)
				}
				data := payload.Make("new", int64(n), newLen)
				err := lockedfile.Write(file, &cutReader{data: data, cut: cut}, 0o666)
				r.Eval(1)
				r.Count("writes_whose_content_reader_fails", 1)
				if err == nil {
					got, _ := os.ReadFile(file)
					if !bytes.Equal(got, data) {
						r.Violation(fmt.Sprintf("write-reported-success-on-partial-copy old=%d new=%d cut=%d", oldLen, newLen, cut),
							fmt.Sprintf("lockedfile.Write returned nil although its content reader failed after %d of %d bytes; the file now holds %d bytes, which a Read returns as the contents of a Write that finished", cut, newLen, len(got)),
							fcase{Kind: "write-reported-success-on-partial-copy", OldLen: oldLen, NewLen: newLen, Fault: fmt.Sprintf("content reader fails after %d bytes", cut)})
						return
					}
				} else if !errors.Is(err, errCut) {
					r.Violation(fmt.Sprintf("write-reported-another-error old=%d new=%d cut=%d", oldLen, newLen, cut),
						fmt.Sprintf("lockedfile.Write whose content reader failed returned %v instead of the reader's error", err),
						fcase{Kind: "write-reported-another-error", OldLen: oldLen, NewLen: newLen, Fault: fmt.Sprintf("content reader fails after %d bytes", cut)})
					return
				}
				// and the file is usable afterwards: a complete Write, then Read
				if err := lockedfile.Write(file, bytes.NewReader(data), 0o666); err != nil {
					r.Violation("write-after-failed-write", "a complete Write after a failed one returned "+err.Error(), fcase{Kind: "write-after-failed-write", OldLen: oldLen, NewLen: newLen})
					return
				}
				if got, err := lockedfile.Read(file); err != nil || !bytes.Equal(got, data) {
					r.Violation("read-after-failed-write", fmt.Sprintf("Read after failed Write + complete Write returned %d bytes, err %v", len(got), err), fcase{Kind: "read-after-failed-write", OldLen: oldLen, NewLen: newLen})
					return
				}
				os.Remove(file)
			}
		}
	}
}

func faultRuns(r *vlib.Run, base string, W int) {
	child := filepath.Join(os.Getenv("VERIF_BUILD"), "c07child")
	type rel struct{ old, new int }
	rels := []rel{{100, 5000}, {5000, 100}, {4096, 4096}, {0, 300}, {300, 0}, {70000, 200000}, {200000, 70000}, {1, 2}, {2, 1}}
	if !r.Quick() {
		rels = append(rels, rel{100000, 100001}, rel{100001, 100000}, rel{65536, 65536}, rel{0, 0}, rel{4096, 8192}, rel{300000, 10})
	}
	var ctr int64
	seenKind := map[string]int{}
	var mu sync.Mutex
	report := func(kind string, key string, what string, c fcase) {
		mu.Lock()
		seenKind[kind]++
		n := seenKind[kind]
		mu.Unlock()
		if n <= 4 {
			r.Violation(key, what, c)
		}
	}
	one := func(rl rel, inject string, extra []string, desc string, wantLand func(res *vlib.StraceResult) bool) {
		dir := filepath.Join(base, fmt.Sprintf("t%d", atomic.AddInt64(&ctr, 1)))
		os.MkdirAll(dir, 0o777)
		defer os.RemoveAll(dir)
		file := filepath.Join(dir, "data")
		old := payload.Make("old", int64(rl.old), rl.old)
		newData := payload.Make("new", 7, rl.new)
		os.WriteFile(file, old, 0o666)
		args := append([]string{child, file, "7", fmt.Sprint(rl.new)}, extra...)
		isWrite := len(extra) > 0 && extra[0] == "op=write"
		var stdout string
		var trace []string
		if inject == "" && wantLand == nil {
			cmd := exec.Command(args[0], args[1:]...)
			cmd.Env = append(os.Environ(), "GOMAXPROCS=1")
			b, _ := cmd.CombinedOutput()
			stdout = string(b)
		} else {
			res, err := vlib.RunStrace(filepath.Join(dir, "strace.log"), inject, nil, args...)
			if err != nil || res.TimedOut || res.Begin < 0 {
				r.Inconclusive(fmt.Sprintf("traced Transform run failed: %v", err))
				return
			}
			if wantLand != nil && !wantLand(res) {
				r.Count("injections_not_landed", 1)
				return
			}
			stdout = res.Stdout
			for _, s := range res.Region() {
				trace = append(trace, s.String())
			}
		}
		r.Eval(1)
		atomic.AddInt64(&nFaultRuns, 1)
		got, rerr := os.ReadFile(file)
		fault := desc
		switch {
		case rerr != nil:
			report("transform-lost-the-file", fmt.Sprintf("transform-lost-the-file old=%d new=%d %s", rl.old, rl.new, fault),
				fmt.Sprintf("after a Transform (%s) with %s the file cannot be read any more: %v (old %d bytes, new %d bytes)", strings.TrimSpace(stdout), fault, rerr, rl.old, rl.new),
				fcase{"transform-lost-the-file", rl.old, rl.new, fault, trace, strings.TrimSpace(stdout)})
		case strings.HasPrefix(stdout, "TERR") && isWrite:
			// a Write that reports its failure: what it leaves in the file is not the property's business
			atomic.AddInt64(&nWriteErr, 1)
		case strings.HasPrefix(stdout, "TERR"):
			atomic.AddInt64(&nRolledBack, 1)
			if !bytes.Equal(got, old) {
				_, prob := ident(got)
				report("failed-transform-changed-contents", fmt.Sprintf("failed-transform-changed-contents old=%d new=%d %s", rl.old, rl.new, fault),
					fmt.Sprintf("Transform returned an error (%s) after %s, but the file no longer holds the previous contents: %d bytes, %s (old %d bytes, new %d bytes)", strings.TrimSpace(stdout), fault, len(got), prob, rl.old, rl.new),
					fcase{"failed-transform-changed-contents", rl.old, rl.new, fault, trace, strings.TrimSpace(stdout)})
			}
		case strings.HasPrefix(stdout, "TOK"):
			atomic.AddInt64(&nCompleted, 1)
			if !bytes.Equal(got, newData) {
				_, prob := ident(got)
				kind, op := "successful-transform-wrong-contents", "Transform"
				if isWrite {
					kind, op = "successful-write-wrong-contents", "Write"
				}
				report(kind, fmt.Sprintf("%s old=%d new=%d %s", kind, rl.old, rl.new, fault),
					fmt.Sprintf("%s returned nil after %s, but the file does not hold the new contents: %d bytes, %s", op, fault, len(got), prob),
					fcase{kind, rl.old, rl.new, fault, trace, strings.TrimSpace(stdout)})
			}
		default:
			r.Inconclusive("child produced no verdict: " + stdout)
		}
		r.Distinct(fmt.Sprintf("fault|%d|%d|%s", rl.old, rl.new, desc))
	}
	type job func()
	var jobs []job
	for _, rl := range rels {
		rl := rl
		// dry run to enumerate the region
		dir := filepath.Join(base, fmt.Sprintf("dry%d", atomic.AddInt64(&ctr, 1)))
		os.MkdirAll(dir, 0o777)
		file := filepath.Join(dir, "data")
		os.WriteFile(file, payload.Make("old", int64(rl.old), rl.old), 0o666)
		dry, err := vlib.RunStrace(filepath.Join(dir, "strace.log"), "", nil, child, file, "7", fmt.Sprint(rl.new))
		os.RemoveAll(dir)
		if err != nil || dry.Begin < 0 || dry.End < 0 || !strings.HasPrefix(dry.Stdout, "TOK") {
			r.Inconclusive(fmt.Sprintf("dry run of Transform old=%d new=%d failed: %v", rl.old, rl.new, err))
			continue
		}
		region := dry.Region()
		for j, s := range region {
			j, s := j, s
			for _, en := range tErrno[s.Name] {
				en := en
				jobs = append(jobs, func() {
					one(rl, fmt.Sprintf("%s:error=%s:when=%d", s.Name, en, s.Ordinal), nil,
						fmt.Sprintf("%s injected into file operation %d/%d (%s)", en, j+1, len(region), s.Name),
						func(res *vlib.StraceResult) bool {
							reg := res.Region()
							return len(reg) > j && reg[j].Injected && reg[j].Name == s.Name
						})
				})
			}
		}
		// the function reports an error
		jobs = append(jobs, func() { one(rl, "", []string{"fnerr"}, "the function returned an error", nil) })
		// the same for one Write: every file operation it performs fails once; whenever Write then returns
		// nil the file must hold exactly the new bytes (no leftover of the old ones, nothing missing)
		dirW := filepath.Join(base, fmt.Sprintf("dryw%d", atomic.AddInt64(&ctr, 1)))
		os.MkdirAll(dirW, 0o777)
		fileW := filepath.Join(dirW, "data")
		os.WriteFile(fileW, payload.Make("old", int64(rl.old), rl.old), 0o666)
		dryW, errW := vlib.RunStrace(filepath.Join(dirW, "strace.log"), "", nil, child, fileW, "7", fmt.Sprint(rl.new), "op=write")
		os.RemoveAll(dirW)
		if errW != nil || dryW.Begin < 0 || dryW.End < 0 || !strings.HasPrefix(dryW.Stdout, "TOK") {
			r.Inconclusive(fmt.Sprintf("dry run of Write old=%d new=%d failed: %v", rl.old, rl.new, errW))
			continue
		}
		regionW := dryW.Region()
		for j, s := range regionW {
			j, s := j, s
			errnos := tErrno[s.Name]
			if s.Name == "write" {
				errnos = []string{"ENOSPC", "EIO"}
			}
			for _, en := range errnos {
				en := en
				jobs = append(jobs, func() {
					one(rl, fmt.Sprintf("%s:error=%s:when=%d", s.Name, en, s.Ordinal), []string{"op=write"},
						fmt.Sprintf("Write: %s injected into file operation %d/%d (%s)", en, j+1, len(regionW), s.Name),
						func(res *vlib.StraceResult) bool {
							reg := res.Region()
							return len(reg) > j && reg[j].Injected && reg[j].Name == s.Name
						})
				})
			}
		}
		// real short writes in the growth case
		if rl.new > rl.old {
			for _, lim := range []int{rl.old, rl.old + 1, (rl.old + rl.new) / 2, rl.new - 1} {
				lim := lim
				jobs = append(jobs, func() {
					one(rl, "", []string{fmt.Sprintf("fsize=%d", lim)}, fmt.Sprintf("RLIMIT_FSIZE=%d (real short write while growing)", lim), nil)
				})
			}
		}
	}
	vlib.Parallel(len(jobs), W, func(i int) { jobs[i]() })
}

// ---------- parent ----------

func main() {
	if os.Getenv("C07_WORKER") == "1" {
		worker()
		return
	}
	vlib.Main("C07", "exploration", 12*time.Minute, func(r *vlib.Run) {
		r.Rule("schedules: rounds of P processes (2-6) x G goroutines (2-6) released together on F files (every second process with its standard input closed, so that files land on descriptor 0); each client does K operations (Read via lockedfile.Read or Open+delayed ReadAll, Write of a unique payload, Transform to a unique payload, Transform whose function fails) with unique self-describing payloads of 24B..256KiB, a third of the operations reaching the file through a symbolic link, and seeded delays at the lockedfile hooks; each file's history (plus a final quiescent Read) is checked with porcupine against a register model; every fifth round has no blind Writes and is also checked by the chain checker; every fifth round writes empty contents too and starts half of its files empty (EMPTY is then an ordinary value of the register); every fifth round starts with no files at all (12-31 names, first operations race to create them; a missing and an empty file are the one value EMPTY); every fourth round the workers run under strace with EINTR injected into every other flock call of every thread. faults: for 9 (quick) / 15 old/new length relations a dry run under strace lists the file operations of one Transform, then one run per (operation, errno), plus failing function and RLIMIT_FSIZE short writes; the same enumeration for one Write (whenever it returns nil the file holds exactly the new bytes); 57 Writes whose content reader fails after 0 / 1 / half / all but one of its bytes must report that error. Non-trivial/distinct = per-file histories containing overlapping operations of different kinds + confirmed fault injections.")
		r.Assume("CLOCK_MONOTONIC is one clock for all processes of the machine; porcupine v1.3.0 decides linearizability of the recorded history (timeout => inconclusive)")
		base := vlib.Scratch()
		W := runtime.NumCPU()
		faultRuns(r, base, W)
		writeFaults(r, base)
		r.Set("fault_runs", atomic.LoadInt64(&nFaultRuns))
		r.Set("fault_runs_transform_returned_error", atomic.LoadInt64(&nRolledBack))
		r.Set("fault_runs_transform_returned_nil", atomic.LoadInt64(&nCompleted))
		r.Set("fault_runs_write_returned_error", atomic.LoadInt64(&nWriteErr))

		rounds := r.Pick(24, 160)
		_, straceErr := exec.LookPath("strace")
		haveStrace := straceErr == nil
		rng := r.Rand("rounds")
		racePrefix := filepath.Join(base, "race")
		hook := map[string]int64{}
		var nHist, nOps, nOverlapHist, nPorcOK int64
		seenV := map[string]int{}
		viol := func(kind, key, what string, c any) {
			seenV[kind]++
			if seenV[kind] <= 4 {
				r.Violation(key, what, c)
			}
		}
		for round := 0; round < rounds; round++ {
			dir := filepath.Join(base, fmt.Sprintf("r%d", round))
			os.MkdirAll(dir, 0o777)
			P := 2 + rng.Intn(5)
			G := 2 + rng.Intn(5)
			F := 1 + rng.Intn(12)
			chain := round%5 == 4
			// keep each file's history small enough for porcupine (many short histories)
			K := (30 + rng.Intn(40)) * F / (P * G)
			if K < 2 {
				K = 2
			}
			if chain {
				K = r.Pick(60, 400)
				F = 1
			}
			// every fifth round (not a chain round) also writes empty contents and starts half of
			// its files empty: a failing Transform must leave an empty file in place like any other
			emptyRound := round%5 == 2
			// every fifth round starts with no files at all: the first operations race to create them, and
			// whatever the winner published must be what the others find
			absentRound := round%5 == 1
			allowEmpty = emptyRound || absentRound
			if absentRound {
				F = 12 + rng.Intn(20)
				K = 3 + rng.Intn(4)
				r.Count("rounds_starting_without_files", 1)
			}
			init := payload.Make("init", 0, 1000)
			for f := 0; f < F && !absentRound; f++ {
				os.Symlink(filepath.Join(dir, fmt.Sprintf("f%d", f)), filepath.Join(dir, fmt.Sprintf("l%d", f)))
				if emptyRound && f%2 == 0 {
					os.WriteFile(filepath.Join(dir, fmt.Sprintf("f%d", f)), nil, 0o666)
					continue
				}
				os.WriteFile(filepath.Join(dir, fmt.Sprintf("f%d", f)), init, 0o666)
			}
			if emptyRound {
				r.Count("rounds_with_empty_contents", 1)
			}
			eintrRound := round%4 == 3 && haveStrace
			if eintrRound {
				r.Count("rounds_with_EINTR_injected_into_flock", 1)
			}
			words, err := vlib.OpenSharedWords(filepath.Join(dir, "words"), 8)
			if err != nil {
				r.Inconclusive(err.Error())
				return
			}
			var cmds []*exec.Cmd
			var outs []string
			for p := 0; p < P; p++ {
				out := filepath.Join(dir, fmt.Sprintf("res%d.json", p))
				outs = append(outs, out)
				cmd := exec.Command(os.Args[0])
				if eintrRound {
					// every other flock call of every thread of this worker fails with EINTR (not executed): an
					// interrupted lock request must be reissued, never taken for a lock that was granted
					cmd = exec.Command("strace", "-f", "-qq", "--seccomp-bpf", "-e", "trace=flock", "-e", "inject=flock:error=EINTR:when=1+2", "-o", "/dev/null", os.Args[0])
				}
				cmd.Env = append(os.Environ(), "C07_WORKER=1", "C07_DIR="+dir, "C07_OUT="+out,
					fmt.Sprintf("C07_SEED=%d", r.SubSeed(fmt.Sprintf("w-%d-%d", round, p))%1_000_000),
					fmt.Sprintf("C07_G=%d", G), fmt.Sprintf("C07_K=%d", K), fmt.Sprintf("C07_F=%d", F), fmt.Sprintf("C07_WID=%d", p+1),
					vlib.RaceEnv(racePrefix))
				if emptyRound {
					cmd.Env = append(cmd.Env, "C07_EMPTY=1")
				}
				if absentRound {
					cmd.Env = append(cmd.Env, "C07_ABSENT=1")
				}
				if chain {
					cmd.Env = append(cmd.Env, "C07_CHAIN=1")
				}
				cmd.Stderr = os.Stderr
				if err := cmd.Start(); err != nil {
					r.Inconclusive(err.Error())
					return
				}
				cmds = append(cmds, cmd)
			}
			time.Sleep(120 * time.Millisecond)
			words.Store(7, 1)
			for _, c := range cmds {
				if err := c.Wait(); err != nil {
					r.Inconclusive(fmt.Sprintf("worker exited abnormally: %v", err))
				}
			}
			words.Close()
			byFile := map[int][]event{}
			for _, o := range outs {
				b, err := os.ReadFile(o)
				if err != nil {
					r.Inconclusive("worker wrote no result")
					continue
				}
				var wo workerOut
				json.Unmarshal(b, &wo)
				for k, v := range wo.Hook {
					hook[k] += v
				}
				for _, e := range wo.Events {
					byFile[e.File] = append(byFile[e.File], e)
				}
			}
			for f := 0; f < F; f++ {
				evs := byFile[f]
				// final quiescent read by the parent
				b, ferr := os.ReadFile(filepath.Join(dir, fmt.Sprintf("f%d", f)))
				fin := event{Client: 9999, File: f, Op: opRead, Call: vlib.MonoNow()}
				fin.Ret = fin.Call + 1
				if absentRound && errors.Is(ferr, fs.ErrNotExist) {
					fin.Val = "EMPTY"
				} else if id, prob := ident(b); prob != "" {
					fin.Corrupt = "final contents: " + prob
				} else {
					fin.Val = id
				}
				evs = append(evs, fin)
				if emptyRound && f%2 == 0 {
					// the file started empty: a completed Write of EMPTY before everything else
					evs = append(evs, event{Client: 9998, File: f, Op: opWrite, Arg: "EMPTY", Call: 0, Ret: 1})
				}
				if absentRound {
					evs = append(evs, event{Client: 9998, File: f, Op: opWrite, Arg: "EMPTY", Call: 0, Ret: 1})
				}
				sort.Slice(evs, func(i, j int) bool { return evs[i].Call < evs[j].Call })
				nHist++
				nOps += int64(len(evs))
				r.Eval(int64(len(evs)))
				bad := false
				for _, e := range evs {
					if e.Corrupt != "" {
						viol("torn-contents", fmt.Sprintf("torn-contents round=%d file=%d seed=%d", round, f, r.Seed),
							fmt.Sprintf("client %d op %d observed contents that are not the complete payload of a single Write/Transform: %s", e.Client, e.Op, e.Corrupt), hcase{"torn-contents", round, f, e.Corrupt, trim(evs)})
						bad = true
						break
					}
					if e.Err != "" {
						viol("operation-error", fmt.Sprintf("operation-error round=%d file=%d seed=%d", round, f, r.Seed), "operation failed unexpectedly: "+e.Err, hcase{"operation-error", round, f, e.Err, nil})
						bad = true
						break
					}
				}
				if bad {
					continue
				}
				// overlap measure: operations of different kinds overlapping in time
				ov := false
				for i := 0; i < len(evs) && !ov; i++ {
					for j := i + 1; j < len(evs) && evs[j].Call < evs[i].Ret; j++ {
						if evs[j].Op != evs[i].Op {
							ov = true
							break
						}
					}
				}
				if ov {
					nOverlapHist++
				}
				if chain {
					if d := chainCheck(evs); d != "" {
						viol("chain-check", fmt.Sprintf("chain-check round=%d file=%d seed=%d", round, f, r.Seed), "Transform/Read history is not atomic: "+d, hcase{"chain-check", round, f, d, trim(evs)})
					}
					r.Count("chain_checked_histories", 1)
					r.Count("chain_checked_ops", int64(len(evs)))
					if len(evs) > 90 {
						continue // porcupine only on moderate sizes
					}
				}
				var ops []porcupine.Operation
				for _, e := range evs {
					ops = append(ops, porcupine.Operation{ClientId: e.Client, Input: pin{e.Op, e.Arg}, Call: e.Call, Output: pout{e.Val, e.Saw, e.Failed}, Return: e.Ret})
				}
				// porcupine wants small dense client ids
				ids := map[int]int{}
				for i := range ops {
					if _, ok := ids[ops[i].ClientId]; !ok {
						ids[ops[i].ClientId] = len(ids)
					}
					ops[i].ClientId = ids[ops[i].ClientId]
				}
				res := porcupine.CheckOperationsTimeout(model, ops, 20*time.Second)
				switch res {
				case porcupine.Ok:
					nPorcOK++
				case porcupine.Illegal:
					viol("not-linearizable", fmt.Sprintf("not-linearizable round=%d file=%d seed=%d", round, f, r.Seed),
						fmt.Sprintf("history of file %d in round %d (%d operations by %d clients) has no linearization against a register", f, round, len(evs), len(ids)), hcase{"not-linearizable", round, f, "porcupine: Illegal", trim(evs)})
				default:
					r.Inconclusive(fmt.Sprintf("porcupine timed out on a history of %d operations", len(evs)))
				}
				if round == 0 && f == 0 {
					r.Sample(map[string]any{"kind": "history", "processes": P, "goroutines": G, "events": trim(evs)})
				}
			}
			os.RemoveAll(dir)
		}
		r.DistinctBulk(nOverlapHist)
		r.Set("rounds", rounds)
		r.Set("histories_checked", nHist)
		r.Set("histories_with_overlapping_ops_of_different_kinds", nOverlapHist)
		r.Set("histories_linearizable_by_porcupine", nPorcOK)
		r.Set("operations_recorded", nOps)
		r.Set("hook_hits", hook)
		r.ReportRaces(racePrefix)
		if nOverlapHist < 5 {
			r.Inconclusive("too few histories with overlapping operations")
		}
		if atomic.LoadInt64(&nRolledBack) < 20 {
			r.Inconclusive("too few fault-injected Transforms returned an error")
		}
	})
}

func trim(evs []event) []event {
	if len(evs) > 80 {
		return evs[:80]
	}
	return evs
}
