// c07child performs exactly one lockedfile.Transform on the locked main thread
// between two marker syscalls, so that strace can make one of its file
// operations fail.
//
//	c07child <file> <newseed> <newsize> [fsize=N] [fnerr]
package main

import (
	"errors"
	"fmt"
	"os"
	"os/signal"
	"runtime"
	"runtime/debug"
	"strconv"
	"strings"
	"syscall"

	"github.com/rogpeppe/go-internal/lockedfile"

	"verif/gen/payload"
)

func init() { runtime.LockOSThread() }

func main() {
	debug.SetGCPercent(-1)
	file := os.Args[1]
	seed, _ := strconv.ParseInt(os.Args[2], 10, 64)
	size, _ := strconv.Atoi(os.Args[3])
	fnerr := false
	for _, a := range os.Args[4:] {
		switch {
		case strings.HasPrefix(a, "fsize="):
			n, _ := strconv.ParseUint(a[6:], 10, 64)
			signal.Ignore(syscall.SIGXFSZ)
			lim := syscall.Rlimit{Cur: n, Max: n}
			if err := syscall.Setrlimit(syscall.RLIMIT_FSIZE, &lim); err != nil {
				fmt.Println("RLIMITERR", err)
				os.Exit(2)
			}
		case a == "fnerr":
			fnerr = true
		}
	}
	newData := payload.Make("new", seed, size)
	os.Stat("/VERIF_MARK_BEGIN")
	sawLen := -1
	err := lockedfile.Transform(file, func(old []byte) ([]byte, error) {
		sawLen = len(old)
		if fnerr {
			return nil, errors.New("function refuses")
		}
		return newData, nil
	})
	os.Stat("/VERIF_MARK_END")
	if err != nil {
		fmt.Printf("TERR saw=%d %v\n", sawLen, err)
		return
	}
	fmt.Printf("TOK saw=%d\n", sawLen)
}
