// c07child performs exactly one lockedfile.Transform on the locked main thread
// between two marker syscalls, so that strace can make one of its file
// operations fail.
//
//	c07child <file> <newseed> <newsize> [fsize=N] [fnerr]
package main

import (
	"bytes"
	"errors"
	"fmt"
	"os"
	"os/signal"
	"runtime"
	"runtime/debug"
	"strconv"
	"strings"
	"syscall"

	"github.com/rogpeppe/go-internal/lockedfile"

	"verif/gen/payload"
)

func init() { runtime.LockOSThread() }

func main() {
	debug.SetGCPercent(-1)
	file := os.Args[1]
	seed, _ := strconv.ParseInt(os.Args[2], 10, 64)
	size, _ := strconv.Atoi(os.Args[3])
	fnerr := false
	opWrite := false
	for _, a := range os.Args[4:] {
		switch {
		case strings.HasPrefix(a, "fsize="):
			n, _ := strconv.ParseUint(a[6:], 10, 64)
			signal.Ignore(syscall.SIGXFSZ)
			lim := syscall.Rlimit{Cur: n, Max: n}
			if err := syscall.Setrlimit(syscall.RLIMIT_FSIZE, &lim); err != nil {
				fmt.Println("RLIMITERR", err)
				os.Exit(2)
			}
		case a == "fnerr":
			fnerr = true
		case a == "op=write":
			opWrite = true
		}
	}
	newData := payload.Make("new", seed, size)
	if opWrite {
		// one lockedfile.Write instead of a Transform
		os.Stat("/VERIF_MARK_BEGIN")
		err := lockedfile.Write(file, bytes.NewReader(newData), 0o666)
		os.Stat("/VERIF_MARK_END")
		if err != nil {
			fmt.Printf("TERR saw=-1 %v\n", err)
			return
		}
		fmt.Printf("TOK saw=-1\n")
		return
	}
	os.Stat("/VERIF_MARK_BEGIN")
	sawLen := -1
	err := lockedfile.Transform(file, func(old []byte) ([]byte, error) {
		sawLen = len(old)
		if fnerr {
			return nil, errors.New("function refuses")
		}
		return newData, nil
	})
	os.Stat("/VERIF_MARK_END")
	if err != nil {
		fmt.Printf("TERR saw=%d %v\n", sawLen, err)
		return
	}
	fmt.Printf("TOK saw=%d\n", sawLen)
}
