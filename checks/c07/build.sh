go build "${MODFLAG[@]}" -tags verif -o "$B/c07child" ./checks/c07/child || return 1
