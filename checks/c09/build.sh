# non-race twin: only a non-race binary lets the Go runtime prove "all goroutines are asleep"
go build "${MODFLAG[@]}" -tags verif -o "$B/check-norace" ./checks/c09 || return 1
