// C09: par.Work runs every item exactly once and returns only when all are done.
// Oracle: monitors inside the user function f (per-item call counters, atomic
// in-flight gauge with high-water mark, started/finished sets, "Do has
// returned" flag), reachable closure computed independently; termination by
// the Go runtime's deadlock detector (non-race build) and by goroutine-dump
// classification under a watchdog (race build); Go race detector.
package main

import (
	"encoding/json"
	"fmt"
	"hash/fnv"
	"math"
	"math/rand"
	"os"
	"path/filepath"
	"runtime"
	"strconv"
	"strings"
	"sync"
	"sync/atomic"
	"time"

	"github.com/rogpeppe/go-internal/par"

	"verif/vlib"
)

type runSpec struct {
	Seed  int64 `json:"seed"`
	M     int   `json:"items"`
	N     int   `json:"workers"`
	Roots []int `json:"roots"`
	Shape int   `json:"shape"`
	// Items: how item i is presented to Add. 0: the int i; 1: ints, but item NilItem is the nil interface
	// value (an item like any other: Add takes any); 2: strings; 3: pointers, item NilItem a typed nil pointer
	Items   int `json:"item_kind"`
	NilItem int `json:"nil_item"`
}

type inode struct{ i int }

var inodes [1024]*inode

func init() {
	for i := range inodes {
		inodes[i] = &inode{i}
	}
}

func enc(spec runSpec, i int) any {
	switch spec.Items {
	case 1:
		if i == spec.NilItem {
			return nil
		}
	case 2:
		return fmt.Sprintf("item-%d", i)
	case 3:
		if i == spec.NilItem {
			return (*inode)(nil)
		}
		return inodes[i]
	case 4:
		// floats; item NilItem is NaN, which is not equal to itself: every Add of it adds a new item
		if i == spec.NilItem {
			return math.NaN()
		}
		return float64(i)
	}
	return i
}

func dec(spec runSpec, item any) (int, bool) {
	switch v := item.(type) {
	case nil:
		return spec.NilItem, spec.Items == 1
	case int:
		return v, spec.Items <= 1 && !(spec.Items == 1 && v == spec.NilItem)
	case string:
		var i int
		_, err := fmt.Sscanf(v, "item-%d", &i)
		return i, err == nil && spec.Items == 2
	case float64:
		if v != v {
			return spec.NilItem, spec.Items == 4
		}
		return int(v), spec.Items == 4 && int(v) != spec.NilItem
	case *inode:
		if v == nil {
			return spec.NilItem, spec.Items == 3
		}
		return v.i, spec.Items == 3 && v.i != spec.NilItem
	}
	return -1, false
}

type runViolation struct {
	Kind   string  `json:"kind"`
	Detail string  `json:"detail"`
	Spec   runSpec `json:"spec"`
}

type batchOut struct {
	Runs        int64          `json:"runs"`
	Calls       int64          `json:"calls"`
	Sigs        []uint64       `json:"sigs"`
	IdleAdds    int64          `json:"runs_with_adds_while_a_worker_was_idle"`
	Rendezvous  int64          `json:"rendezvous_runs_completed"`
	RvWidthMax  int64          `json:"widest_rendezvous"`
	MaxInflight int64          `json:"max_inflight_seen"`
	Violations  []runViolation `json:"violations"`
	LastSpec    runSpec        `json:"last_spec"`
}

func children(spec runSpec, i int) []int {
	if spec.Items == 4 && i == spec.NilItem {
		// NaN is a new item at every Add: it adds nothing itself, or a cycle through it would never end
		return nil
	}
	h := fnv.New64a()
	fmt.Fprintf(h, "%d/%d", spec.Seed, i)
	x := h.Sum64()
	var out []int
	switch spec.Shape {
	case 0: // random fan-out 0-4 with duplicates, self-edges and back-edges
		k := int(x % 5)
		for j := 0; j < k; j++ {
			x = x*6364136223846793005 + 1442695040888963407
			out = append(out, int((x>>33)%uint64(spec.M)))
		}
	case 1: // chain
		if i+1 < spec.M {
			out = append(out, i+1)
		}
	case 2: // wide fan from item 0, leaves add back-edges
		if i == 0 {
			for j := 1; j < spec.M; j++ {
				out = append(out, j)
			}
		} else if x%3 == 0 {
			out = append(out, 0, i)
		}
	case 3: // binary tree + duplicate adds
		for _, c := range []int{2*i + 1, 2*i + 2, 2*i + 1} {
			if c < spec.M {
				out = append(out, c)
			}
		}
	case 5: // rendezvous fan: item 0 adds min(n,M)-1 children back to back; all of them wait for each other
		if i == 0 {
			for j := 1; j <= rvWidth(spec)-1; j++ {
				out = append(out, j)
			}
		}
	case 6: // popular item: item 0 adds everybody, and everybody adds the last item (and, every other one, item 0 again)
		if i == 0 {
			for j := 1; j < spec.M; j++ {
				out = append(out, j)
			}
		} else if i < spec.M-1 {
			out = append(out, spec.M-1)
			if x%2 == 0 {
				out = append(out, 0)
			}
		}
	default: // bursts: every 7th item adds a block
		if i%7 == 0 {
			for j := i + 1; j < i+7 && j < spec.M; j++ {
				out = append(out, j)
			}
		} else if i+7 < spec.M && x%2 == 0 {
			out = append(out, (i/7+1)*7)
		}
	}
	return out
}

// rvWidth: number of calls of f that must be in progress together in a rendezvous run
// (never more than n, so a correct Work can always provide them: every runner that is
// not inside f takes a queued item sooner or later - unless its wake-up was lost).
func rvWidth(spec runSpec) int {
	k := spec.N
	if spec.M < k {
		k = spec.M
	}
	return k
}

func reachable(spec runSpec) map[int]bool {
	seen := map[int]bool{}
	var stack []int
	for _, r := range spec.Roots {
		if !seen[r] {
			seen[r] = true
			stack = append(stack, r)
		}
	}
	for len(stack) > 0 {
		i := stack[len(stack)-1]
		stack = stack[:len(stack)-1]
		for _, c := range children(spec, i) {
			if !seen[c] {
				seen[c] = true
				stack = append(stack, c)
			}
		}
	}
	return seen
}

var flushOut func()
var outMu sync.Mutex

var rendezvousRuns int64 // calls that passed a rendezvous (shape 5)

var lateCalls int64 // calls of f observed after their Do had returned (any run of this batch)

func perturb(x uint64) {
	switch x % 7 {
	case 0:
		runtime.Gosched()
	case 1:
		for t := time.Now(); time.Since(t) < time.Duration(x%40)*time.Microsecond; {
		}
	case 2:
		time.Sleep(time.Duration(x%200) * time.Microsecond)
	}
}

func oneRun(spec runSpec, out *batchOut) {
	counts := make([]int32, spec.M)
	finished := make([]int32, spec.M)
	var inflight, high, returned, idleAdds int64
	var order []int32
	var rvArrived int64
	rvAll := make(chan struct{})
	omu := &outMu
	var w par.Work
	var nanAdds int64
	for _, r := range spec.Roots {
		if spec.Items == 4 && r == spec.NilItem {
			atomic.AddInt64(&nanAdds, 1)
		}
		w.Add(enc(spec, r))
	}
	viol := func(kind, detail string) {
		omu.Lock()
		if len(out.Violations) < 20 {
			out.Violations = append(out.Violations, runViolation{kind, detail, spec})
		}
		// a refuted run ends the batch at once (the run itself may never end, e.g. an item executed for ever)
		if flushOut != nil {
			flushOut()
		}
		os.Exit(0)
	}
	f := func(item any) {
		i, ok := dec(spec, item)
		if !ok || i < 0 || i >= spec.M {
			viol("foreign-item", fmt.Sprintf("f was handed %#v (%T), which is not an item that was added", item, item))
		}
		if atomic.LoadInt64(&returned) != 0 {
			atomic.AddInt64(&lateCalls, 1)
			viol("call-after-return", fmt.Sprintf("f(%d) started after Do had returned", i))
		}
		cur := atomic.AddInt64(&inflight, 1)
		for {
			h := atomic.LoadInt64(&high)
			if cur <= h || atomic.CompareAndSwapInt64(&high, h, cur) {
				break
			}
		}
		if c := atomic.AddInt32(&counts[i], 1); c > 1 {
			if spec.Items == 4 && i == spec.NilItem {
				// NaN: one call per Add of it, never more
				if int64(c) > atomic.LoadInt64(&nanAdds) {
					viol("called-more-often-than-added", fmt.Sprintf("f(NaN) called %d times, the item was added %d times", c, atomic.LoadInt64(&nanAdds)))
				}
			} else {
				viol("called-twice", fmt.Sprintf("f(%d) called %d times", i, c))
			}
		}
		omu.Lock()
		order = append(order, int32(i))
		omu.Unlock()
		hh := fnv.New64a()
		fmt.Fprintf(hh, "p/%d/%d", spec.Seed, i)
		x := hh.Sum64()
		perturb(x)
		if spec.Shape == 5 && i == 0 && x%3 != 0 {
			// give the other runners time to go idle (parked in Wait) before the burst of Adds
			time.Sleep(time.Duration(100+x%400) * time.Microsecond)
		}
		for k, c := range children(spec, i) {
			if atomic.LoadInt64(&inflight) < int64(spec.N) {
				atomic.AddInt64(&idleAdds, 1)
			}
			if spec.Items == 4 && c == spec.NilItem {
				atomic.AddInt64(&nanAdds, 1)
			}
			w.Add(enc(spec, c))
			if k%2 == 0 && (spec.Shape != 5 || x%5 == 0) {
				perturb(x >> uint(k+3))
			}
		}
		if spec.Shape == 5 {
			// every call of this run waits until all rvWidth calls have started: an item left in
			// the queue while a runner sleeps (lost wake-up) is then a deadlock, which the runtime
			// (non-race build) or the goroutine dump (race build) proves
			if atomic.AddInt64(&rvArrived, 1) == int64(rvWidth(spec)) {
				close(rvAll)
			}
			<-rvAll
			atomic.AddInt64(&rendezvousRuns, 1)
		}
		perturb(x >> 17)
		atomic.StoreInt32(&finished[i], 1)
		atomic.AddInt64(&inflight, -1)
	}
	w.Do(spec.N, f)
	atomic.StoreInt64(&returned, 1)
	if v := atomic.LoadInt64(&inflight); v != 0 {
		viol("returned-with-calls-in-flight", fmt.Sprintf("Do returned while %d call(s) of f were still in progress", v))
	}
	if h := atomic.LoadInt64(&high); h > int64(spec.N) {
		viol("too-many-in-flight", fmt.Sprintf("%d calls of f in progress at once, n = %d", h, spec.N))
	}
	reach := reachable(spec)
	for i := 0; i < spec.M; i++ {
		c := atomic.LoadInt32(&counts[i])
		switch {
		case reach[i] && c == 0:
			viol("item-not-processed", fmt.Sprintf("Do returned but f was never called for added item %d", i))
		case reach[i] && atomic.LoadInt32(&finished[i]) == 0:
			viol("returned-before-call-finished", fmt.Sprintf("Do returned before f(%d) finished", i))
		case !reach[i] && c != 0:
			viol("phantom-item", fmt.Sprintf("f(%d) was called although the item was never added", i))
		}
	}
	omu.Lock()
	defer omu.Unlock()
	out.Runs++
	out.Calls += int64(len(order))
	if idleAdds > 0 {
		out.IdleAdds++
	}
	if spec.Shape == 5 {
		out.Rendezvous++
		if int64(rvWidth(spec)) > out.RvWidthMax {
			out.RvWidthMax = int64(rvWidth(spec))
		}
	}
	if high > out.MaxInflight {
		out.MaxInflight = high
	}
	hh := fnv.New64a()
	for _, o := range order {
		hh.Write([]byte{byte(o), byte(o >> 8)})
	}
	out.Sigs = append(out.Sigs, hh.Sum64())
}

func genSpec(rng *rand.Rand) runSpec {
	s := runSpec{Seed: rng.Int63(), Shape: rng.Intn(6)}
	s.M = []int{1, 2, 3, 5, 8, 20, 60, 200}[rng.Intn(8)]
	if rng.Intn(30) == 0 {
		// one item is added hundreds of times (by every other item): still one call
		s.Shape = 6
		s.M = []int{258, 300, 520, 700}[rng.Intn(4)]
	}
	s.N = []int{1, 2, 3, 4, 8, 64}[rng.Intn(6)]
	if rng.Intn(40) == 0 {
		s.N = []int{255, 256, 257, 300, 1000}[rng.Intn(5)] // far more runners than items: they must all go home
	}
	if rng.Intn(3) == 0 {
		s.Items = 1 + rng.Intn(4)
		s.NilItem = rng.Intn(s.M)
	}
	nr := 1 + rng.Intn(4)
	for i := 0; i < nr; i++ {
		s.Roots = append(s.Roots, rng.Intn(s.M))
	}
	if rng.Intn(3) == 0 {
		s.Roots = append(s.Roots, s.Roots[0]) // duplicate Add before Do
	}
	if s.Shape == 2 || s.Shape == 3 || s.Shape == 6 {
		s.Roots[0] = 0
	}
	if s.Shape == 6 && rng.Intn(2) == 0 {
		for i := 0; i < 300; i++ {
			s.Roots = append(s.Roots, 0) // the same root added hundreds of times before Do
		}
	}
	if rng.Intn(25) == 0 {
		// nothing is ever added: Do must return at once, for every n (the zero Work is ready to use)
		s.Roots = nil
		if s.Shape == 5 {
			s.Shape = 0
		}
		return s
	}
	if s.Shape == 5 && s.Items == 4 {
		s.Items = 0 // the rendezvous counts calls: no item that is called once per Add
	}
	if s.Shape == 5 {
		s.Roots = []int{0}
		if rng.Intn(3) == 0 {
			s.Roots = []int{0, 0}
		}
	}
	return s
}

func batch() {
	seed, _ := strconv.ParseInt(os.Args[2], 10, 64)
	count, _ := strconv.Atoi(os.Args[3])
	outPath := os.Args[4]
	rng := rand.New(rand.NewSource(seed))
	var out batchOut
	flush := func() {
		b, _ := json.Marshal(&out)
		os.WriteFile(outPath+".tmp", b, 0o666)
		os.Rename(outPath+".tmp", outPath)
	}
	flushOut = flush
	for i := 0; i < count; i++ {
		spec := genSpec(rng)
		outMu.Lock()
		out.LastSpec = spec
		outMu.Unlock()
		// the spec about to run is written out before running, so that a hang or a
		// process-fatal error can be attributed to it
		sb, _ := json.Marshal(&spec)
		os.WriteFile(outPath+".spec", sb, 0o666)
		oneRun(spec, &out)
	}
	// calls arriving after their Do returned (leaked workers)
	time.Sleep(20 * time.Millisecond)
	outMu.Lock()
	defer outMu.Unlock()
	if n := atomic.LoadInt64(&lateCalls); n > 0 {
		out.Violations = append(out.Violations, runViolation{"call-after-return", fmt.Sprintf("%d calls of f started after their Do had returned", n), out.LastSpec})
	}
	flush()
}

type ccase struct {
	Kind   string   `json:"kind"`
	Build  string   `json:"build"`
	Procs  int      `json:"gomaxprocs"`
	Seed   int64    `json:"batch_seed"`
	Spec   *runSpec `json:"spec,omitempty"`
	Detail string   `json:"detail"`
	Dump   string   `json:"goroutine_dump,omitempty"`
}

func main() {
	if len(os.Args) > 1 && os.Args[1] == "batch" {
		batch()
		return
	}
	vlib.Main("C09", "exploration", 15*time.Minute, func(r *vlib.Run) {
		r.Rule("runs of Work.Do over deterministic item graphs (1-200 items; shapes: random fan-out with duplicates/self/back edges, chain, wide fan with back-edges, binary tree with duplicate adds, bursts, popular item: 258-700 items all adding the same one, so that it is added hundreds of times; rendezvous fan: one call adds min(n,items)-1 items back to back and all these calls wait for each other, so a lost wake-up is a deadlock), 0-5 roots added before Do (with duplicates; one run in 25 adds nothing at all), n in {1,2,3,4,8,64} (one run in 40: 255, 256, 257, 300 or 1000); items are ints, in a third of the runs strings, pointers (one of them a typed nil), ints with one item being the nil interface value, or floats with one item being NaN (not equal to itself: one call per Add of it); f perturbs itself (Gosched / spin / sleep) at entry, between Adds and at exit; each batch runs in a child process, once in a non-race build (the runtime's deadlock detector is the termination oracle) and once in a race build (watchdog + goroutine-dump classification), GOMAXPROCS in {1,2,4,16}. Distinct non-trivial = distinct item start-order signatures observed.")
		r.Assume("interleavings are sampled, not enumerated (the statement's quantifier asks for a controlled scheduler, which is a different technique): a bug that needs one specific rare order can be missed")
		base := vlib.Scratch()
		build := os.Getenv("VERIF_BUILD")
		bins := map[string]string{"race": os.Args[0], "norace": filepath.Join(build, "check-norace")}
		perBatch := r.Pick(1200, 12000)
		procs := []int{1, 2, 4, 16}
		racePrefix := filepath.Join(base, "race")
		type job struct {
			build string
			procs int
			seed  int64
		}
		var jobs []job
		reps := r.Pick(2, 8)
		for rep := 0; rep < reps; rep++ {
			for _, b := range []string{"norace", "race"} {
				for _, p := range procs {
					jobs = append(jobs, job{b, p, r.SubSeed(fmt.Sprintf("batch-%d-%d", rep, p)) % 1_000_000_007})
				}
			}
		}
		var mu sync.Mutex
		sigs := map[uint64]struct{}{}
		var runs, calls, idle, maxInflight int64
		seenKinds := map[string]int{}
		norace := map[string]time.Duration{} // "seed/procs" -> duration of the non-race batch
		deadlocked := map[string]bool{}
		W := 8
		runJob := func(i int, jb job) {
			key := fmt.Sprintf("%d/%d", jb.seed, jb.procs)
			outPath := filepath.Join(base, fmt.Sprintf("out-%s-%d.json", jb.build, i))
			errPath := filepath.Join(base, fmt.Sprintf("err-%s-%d.txt", jb.build, i))
			env := []string{fmt.Sprintf("GOMAXPROCS=%d", jb.procs), vlib.RaceEnv(racePrefix), "GOTRACEBACK=all"}
			wd := r.PickDur(4*time.Minute, 25*time.Minute)
			if jb.build == "race" {
				mu.Lock()
				d, ok := norace[key]
				skip := deadlocked[key]
				mu.Unlock()
				if skip {
					r.Count("race_batches_skipped_after_deadlock_witness", 1)
					return
				}
				if ok {
					// same workload as the non-race twin: 60x its duration (+30 s) separates "slow" from "never"
					wd = 30*time.Second + 60*d
				}
			}
			t0 := time.Now()
			res := vlib.RunBatch(errPath, wd, env, bins[jb.build], "batch", fmt.Sprint(jb.seed), fmt.Sprint(perBatch), outPath)
			var bo batchOut
			if b, err := os.ReadFile(outPath); err == nil {
				json.Unmarshal(b, &bo)
			}
			if b, err := os.ReadFile(outPath + ".spec"); err == nil {
				json.Unmarshal(b, &bo.LastSpec) // the run that was in progress when the batch ended
			}
			mu.Lock()
			defer mu.Unlock()
			if jb.build == "norace" {
				norace[key] = time.Since(t0)
			}
			report := func(kind, detail string, spec *runSpec, dump string) {
				seenKinds[kind]++
				if seenKinds[kind] > 3 {
					return
				}
				if len(dump) > 20000 {
					dump = dump[:20000]
				}
				k := fmt.Sprintf("%s build=%s procs=%d batch=%d", kind, jb.build, jb.procs, jb.seed)
				if spec != nil {
					k += fmt.Sprintf(" spec=%d/%d/%d/%d", spec.Seed%100000, spec.M, spec.N, spec.Shape)
				}
				r.Violation(k, kind+": "+detail, ccase{kind, jb.build, jb.procs, jb.seed, spec, detail, dump})
			}
			switch {
			case res.DeadlockByRuntime():
				deadlocked[key] = true
				report("deadlock", fmt.Sprintf("the Go runtime reports 'all goroutines are asleep - deadlock!' during a Do (spec of the run in progress: %+v)", bo.LastSpec), &bo.LastSpec, res.Stderr)
			case res.TimedOut:
				deadlocked[key] = true
				parked, states := vlib.DumpAllParked(res.Stderr)
				if parked {
					report("deadlock", fmt.Sprintf("Do did not return within %v; the goroutine dump shows every goroutine parked (%v) (spec of the run in progress: %+v)", wd, states, bo.LastSpec), &bo.LastSpec, res.Stderr)
				} else {
					r.Inconclusive(fmt.Sprintf("batch %s/%d timed out after %v with goroutines still runnable (%v)", jb.build, jb.procs, wd, states))
				}
			case res.ExitCode != 0:
				if strings.Contains(res.Stderr, "panic:") && strings.Contains(res.Stderr, "go-internal/par") {
					report("panic", "par.Work panicked: "+firstLine(res.Stderr, "panic:"), &bo.LastSpec, res.Stderr)
				} else {
					r.Inconclusive(fmt.Sprintf("batch %s/%d exited with status %d: %s", jb.build, jb.procs, res.ExitCode, tail(res.Stderr, 400)))
				}
			}
			for _, v := range bo.Violations {
				v := v
				report(v.Kind, v.Detail+fmt.Sprintf(" (items=%d n=%d shape=%d roots=%v)", v.Spec.M, v.Spec.N, v.Spec.Shape, v.Spec.Roots), &v.Spec, "")
			}
			runs += bo.Runs
			calls += bo.Calls
			idle += bo.IdleAdds
			r.Count("rendezvous_runs_completed", bo.Rendezvous)
			if bo.RvWidthMax > r.Counter("widest_rendezvous") {
				r.Count("widest_rendezvous", bo.RvWidthMax-r.Counter("widest_rendezvous"))
			}
			if bo.MaxInflight > maxInflight {
				maxInflight = bo.MaxInflight
			}
			for _, s := range bo.Sigs {
				sigs[s] = struct{}{}
			}
			r.Count("batches_"+jb.build, 1)
			if i == 0 {
				r.Sample(map[string]any{"kind": "batch", "build": jb.build, "gomaxprocs": jb.procs, "runs": bo.Runs, "last_spec": bo.LastSpec})
			}
		}
		// phase 1: non-race builds (deadlocks are proven by the runtime at once); phase 2: race twins
		for _, phase := range []string{"norace", "race"} {
			var sel []int
			for i, jb := range jobs {
				if jb.build == phase {
					sel = append(sel, i)
				}
			}
			vlib.Parallel(len(sel), W, func(k int) { runJob(sel[k], jobs[sel[k]]) })
		}
		r.Eval(runs)
		for s := range sigs {
			r.Distinct(fmt.Sprint(s))
		}
		r.Set("runs", runs)
		r.Set("calls_of_f", calls)
		r.Set("runs_with_adds_while_a_worker_was_idle", idle)
		r.Set("max_calls_in_flight_seen", maxInflight)
		r.Set("distinct_start_order_signatures", len(sigs))
		r.ReportRaces(racePrefix)
	})
}

func firstLine(s, prefix string) string {
	for _, l := range strings.Split(s, "\n") {
		if strings.HasPrefix(l, prefix) {
			return l
		}
	}
	return ""
}

func tail(s string, n int) string {
	if len(s) > n {
		return s[len(s)-n:]
	}
	return s
}
