package main

import (
	"testing"

	"verif/vlib"
)

// FuzzDiff: C08's parse/apply oracle as a native fuzz target over pairs of texts.
func FuzzDiff(f *testing.F) {
	f.Add([]byte("a\nb\nc\n"), []byte("a\nc\n"))
	f.Add([]byte("a\na\nb"), []byte("x\na\na\nb\n"))
	f.Add([]byte(""), []byte("\\ No newline at end of file"))
	f.Add([]byte("1\n2\n3\n4\n5\nX\n7\n8\n9\n"), []byte("N\n1\n2\n3\n4\n5\nY\n7\n8\n9\n"))
	f.Fuzz(func(t *testing.T, a, b []byte) {
		vlib.FuzzFail = func(msg string) { t.Fatalf("%s (old %q new %q)", msg, a, b) }
		checkPair(a, b, "a", "b")
	})
}
