package main

import (
	"bytes"
	"fmt"
	"strconv"
	"strings"
)

// Independent strict unified-diff parser and applier (written from the
// format's definition, shares no code with the package under test).

type hline struct {
	op   byte   // ' ', '-', '+'
	text string // line content including its terminator if it has one
}

type hunk struct {
	oldStart, oldCount, newStart, newCount int
	lines                                  []hline
}

type udiff struct {
	oldName, newName string
	hunks            []hunk
}

// splitLines splits a text into lines, each including its "\n" except
// possibly the last.
func splitLines(b []byte) []string {
	var out []string
	for len(b) > 0 {
		i := bytes.IndexByte(b, '\n')
		if i < 0 {
			out = append(out, string(b))
			break
		}
		out = append(out, string(b[:i+1]))
		b = b[i+1:]
	}
	return out
}

const noNL = "\\ No newline at end of file"

func parseRange(s string) (start, count int, err error) {
	// "12,3" or "12"
	a, b, has := strings.Cut(s, ",")
	start, err = strconv.Atoi(a)
	if err != nil || start < 0 || (len(a) > 1 && a[0] == '0') {
		return 0, 0, fmt.Errorf("bad range %q", s)
	}
	count = 1
	if has {
		count, err = strconv.Atoi(b)
		if err != nil || count < 0 || (len(b) > 1 && b[0] == '0') {
			return 0, 0, fmt.Errorf("bad range %q", s)
		}
	}
	return start, count, nil
}

// parseUnified parses out strictly: the three header lines with the given
// names, then hunks whose bodies have exactly the announced numbers of lines.
func parseUnified(out []byte, oldName, newName string) (*udiff, error) {
	if len(out) == 0 || out[len(out)-1] != '\n' {
		return nil, fmt.Errorf("output does not end in a newline")
	}
	ls := strings.Split(string(out[:len(out)-1]), "\n")
	want := []string{"diff " + oldName + " " + newName, "--- " + oldName, "+++ " + newName}
	if len(ls) < 3 {
		return nil, fmt.Errorf("fewer than three header lines")
	}
	for i, w := range want {
		if ls[i] != w {
			return nil, fmt.Errorf("header line %d is %q, want %q", i+1, ls[i], w)
		}
	}
	d := &udiff{oldName: oldName, newName: newName}
	i := 3
	if i >= len(ls) {
		return nil, fmt.Errorf("no hunks in a non-empty diff")
	}
	for i < len(ls) {
		h := ls[i]
		if !strings.HasPrefix(h, "@@ -") || !strings.HasSuffix(h, " @@") {
			return nil, fmt.Errorf("line %d: expected hunk header, got %q", i+1, h)
		}
		mid := strings.TrimSuffix(strings.TrimPrefix(h, "@@ -"), " @@")
		o, n, ok := strings.Cut(mid, " +")
		if !ok {
			return nil, fmt.Errorf("line %d: malformed hunk header %q", i+1, h)
		}
		var hk hunk
		var err error
		if hk.oldStart, hk.oldCount, err = parseRange(o); err != nil {
			return nil, fmt.Errorf("line %d: %v", i+1, err)
		}
		if hk.newStart, hk.newCount, err = parseRange(n); err != nil {
			return nil, fmt.Errorf("line %d: %v", i+1, err)
		}
		i++
		oc, nc := 0, 0
		for oc < hk.oldCount || nc < hk.newCount {
			if i >= len(ls) {
				return nil, fmt.Errorf("hunk %q: body ends early (%d/%d old, %d/%d new lines)", h, oc, hk.oldCount, nc, hk.newCount)
			}
			l := ls[i]
			if l == "" {
				return nil, fmt.Errorf("line %d: empty line inside hunk body", i+1)
			}
			switch l[0] {
			case ' ':
				oc++
				nc++
			case '-':
				oc++
			case '+':
				nc++
			default:
				return nil, fmt.Errorf("line %d: unexpected %q inside hunk body (%d/%d old, %d/%d new)", i+1, l, oc, hk.oldCount, nc, hk.newCount)
			}
			if oc > hk.oldCount || nc > hk.newCount {
				return nil, fmt.Errorf("hunk %q: body has more lines than announced", h)
			}
			hl := hline{op: l[0], text: l[1:] + "\n"}
			i++
			if i < len(ls) && ls[i] == noNL {
				hl.text = l[1:]
				i++
			}
			hk.lines = append(hk.lines, hl)
		}
		if len(hk.lines) == 0 {
			return nil, fmt.Errorf("hunk %q is empty", h)
		}
		changed := false
		for _, l := range hk.lines {
			if l.op != ' ' {
				changed = true
			}
		}
		if !changed {
			return nil, fmt.Errorf("hunk %q changes nothing", h)
		}
		d.hunks = append(d.hunks, hk)
	}
	return d, nil
}

// apply applies d to src (reverse: apply it backwards to the new text). It is
// exact: no fuzz, no offset search; hunks must be in order and must not overlap,
// and both start lines must agree with the positions reached.
func (d *udiff) apply(src []byte, reverse bool) ([]byte, error) {
	in := splitLines(src)
	var out []string
	pos := 0
	for hi, h := range d.hunks {
		fs, fc, ts, tc := h.oldStart, h.oldCount, h.newStart, h.newCount
		del, add := byte('-'), byte('+')
		if reverse {
			fs, fc, ts, tc = ts, tc, fs, fc
			del, add = add, del
		}
		idx := fs - 1
		if fc == 0 {
			idx = fs
		} else if fs == 0 {
			return nil, fmt.Errorf("hunk %d: start line 0 with a non-zero count", hi+1)
		}
		if idx < pos {
			return nil, fmt.Errorf("hunk %d: starts at line %d but previous hunk already covered up to line %d (out of order / overlap)", hi+1, idx+1, pos)
		}
		if idx > len(in) {
			return nil, fmt.Errorf("hunk %d: starts beyond the end of the text", hi+1)
		}
		out = append(out, in[pos:idx]...)
		pos = idx
		wantTo := ts - 1
		if tc == 0 {
			wantTo = ts
		} else if ts == 0 {
			return nil, fmt.Errorf("hunk %d: target start line 0 with a non-zero count", hi+1)
		}
		if len(out) != wantTo {
			return nil, fmt.Errorf("hunk %d: target start line says %d lines precede it, but %d do", hi+1, wantTo, len(out))
		}
		for _, l := range h.lines {
			if l.op == ' ' || l.op == del {
				if pos >= len(in) {
					return nil, fmt.Errorf("hunk %d: source text ends inside the hunk", hi+1)
				}
				if in[pos] != l.text {
					return nil, fmt.Errorf("hunk %d: source line %d is %q, hunk says %q", hi+1, pos+1, in[pos], l.text)
				}
				pos++
			}
			if l.op == ' ' || l.op == add {
				out = append(out, l.text)
			}
		}
	}
	out = append(out, in[pos:]...)
	for i, l := range out {
		if !strings.HasSuffix(l, "\n") && i != len(out)-1 {
			return nil, fmt.Errorf("result has an unterminated line in the middle (line %d)", i+1)
		}
	}
	return []byte(strings.Join(out, "")), nil
}
