// C08: diff.Diff output is a correct, well-formed unified diff.
// Oracle: independent strict unified-diff parser + exact applier (forward
// and reverse); GNU patch as a second, unrelated applier on a tame sample.
package main

import (
	"bytes"
	"encoding/hex"
	"fmt"
	"math/rand"
	"os"
	"os/exec"
	"path/filepath"
	"runtime"
	"strings"
	"sync"
	"sync/atomic"
	"time"

	"github.com/rogpeppe/go-internal/diff"

	"verif/vlib"
)

type tcase struct {
	Kind   string `json:"kind"`
	OldHex string `json:"old_hex"`
	NewHex string `json:"new_hex"`
	Old    string `json:"old_quoted"`
	New    string `json:"new_quoted"`
	Diff   string `json:"diff_output,omitempty"`
	Detail string `json:"detail,omitempty"`
}

var (
	run      *vlib.Run
	kindMu   sync.Mutex
	kindSeen = map[string]int{}
)

func report(kind string, a, b, out []byte, detail string) {
	if run == nil {
		if vlib.FuzzFail != nil {
			vlib.FuzzFail(kind + ": " + detail)
		}
		return
	}
	kindMu.Lock()
	kindSeen[kind]++
	n := kindSeen[kind]
	kindMu.Unlock()
	if n > 4 {
		run.Count("suppressed_duplicate_reports_"+kind, 1)
		return
	}
	run.Violation(fmt.Sprintf("%s old=%s new=%s", kind, vlib.Q(a), vlib.Q(b)),
		fmt.Sprintf("%s for old=%s new=%s: %s", kind, vlib.Q(a), vlib.Q(b), detail),
		tcase{Kind: kind, OldHex: hex.EncodeToString(a), NewHex: hex.EncodeToString(b), Old: vlib.Q(a), New: vlib.Q(b), Diff: string(out), Detail: detail})
}

var nHunks, nMultiHunk, nNoNL int64

func checkPair(a, b []byte, oldName, newName string) {
	run.Eval(1)
	var out []byte
	ga, gaChanged := vlib.Guarded(a)
	gb, gbChanged := vlib.Guarded(b)
	defer func() {
		if c := gaChanged() + gbChanged(); c != "" {
			report("argument-modified", a, b, nil, "Diff: "+c)
		}
	}()
	if pv, st := vlib.Try(func() { out = diff.Diff(oldName, ga, newName, gb) }); pv != nil {
		report("diff-panic", a, b, nil, fmt.Sprintf("panic: %v at %s", pv, vlib.RepoFrame(st)))
		return
	}
	if bytes.Equal(a, b) {
		if len(out) != 0 {
			report("nonempty-for-identical", a, b, out, "Diff returned output for byte-identical texts")
		}
		return
	}
	if len(out) == 0 {
		report("empty-for-different", a, b, out, "Diff returned nothing for different texts")
		return
	}
	d, err := parseUnified(out, oldName, newName)
	if err != nil {
		report("malformed-diff", a, b, out, err.Error())
		return
	}
	atomic.AddInt64(&nHunks, int64(len(d.hunks)))
	if len(d.hunks) > 1 {
		atomic.AddInt64(&nMultiHunk, 1)
	}
	if bytes.Contains(out, []byte("\n"+noNL+"\n")) {
		atomic.AddInt64(&nNoNL, 1)
	}
	got, err := d.apply(a, false)
	if err != nil {
		report("does-not-apply", a, b, out, err.Error())
		return
	}
	if !bytes.Equal(got, b) {
		report("applies-to-wrong-text", a, b, out, fmt.Sprintf("applying the diff to old gives %s", vlib.Q(got)))
		return
	}
	back, err := d.apply(b, true)
	if err != nil {
		report("does-not-apply-reversed", a, b, out, err.Error())
		return
	}
	if !bytes.Equal(back, a) {
		report("reverse-applies-to-wrong-text", a, b, out, fmt.Sprintf("applying the diff in reverse to new gives %s", vlib.Q(back)))
	}
}

// gnuPatch applies out to a with GNU patch; returns the result.
func gnuPatch(dir string, a, out []byte) ([]byte, error) {
	of := filepath.Join(dir, "old")
	rf := filepath.Join(dir, "res")
	if err := os.WriteFile(of, a, 0o644); err != nil {
		return nil, err
	}
	os.Remove(rf)
	cmd := exec.Command("patch", "--fuzz=0", "--quiet", "--force", "--binary", "-o", rf, of)
	cmd.Stdin = bytes.NewReader(out)
	msg, err := cmd.CombinedOutput()
	if err != nil {
		return nil, fmt.Errorf("patch: %v: %s", err, msg)
	}
	return os.ReadFile(rf)
}

func cat(parts ...[]byte) []byte {
	var out []byte
	for _, p := range parts {
		out = append(out, p...)
	}
	return append([]byte{}, out...)
}

func textFrom(lines []string, finalNL bool) []byte {
	s := strings.Join(lines, "\n")
	if finalNL && len(lines) > 0 {
		s += "\n"
	}
	return []byte(s)
}

// allTexts enumerates every text made of up to maxLines lines over vocab,
// with and without final newline.
func allTexts(vocab []string, maxLines int) [][]byte {
	seen := map[string]bool{}
	var out [][]byte
	var rec func(cur []string)
	rec = func(cur []string) {
		for _, nl := range []bool{true, false} {
			t := textFrom(cur, nl)
			if !seen[string(t)] {
				seen[string(t)] = true
				out = append(out, t)
			}
		}
		if len(cur) == maxLines {
			return
		}
		for _, v := range vocab {
			rec(append(append([]string{}, cur...), v))
		}
	}
	rec(nil)
	return out
}

var diffish = []string{"@@ -1 +1 @@", "@@ -1,2 +1,2 @@", "--- a", "+++ b", "\\ No newline at end of file", "-", "+", " ", "-x", "+x", " x", "diff a b", "\\", "", "x\r", "\x00", "--", "++",
	// lines that mean something to a formatter
	"%", "100%", "%d items", "%%", "%s%v%!", "%!(EXTRA string=x)", "% x", "%[1]d", "%*d", "50% of %s", "\\n", "\t", "{{.}}", "$1 ${x}"}

func randomText(rng *rand.Rand) []byte {
	n := rng.Intn(40)
	if rng.Intn(20) == 0 {
		n = 200 + rng.Intn(1800)
	}
	mode := rng.Intn(5)
	vocabN := 2 + rng.Intn(6)
	var ls []string
	for i := 0; i < n; i++ {
		switch mode {
		case 0: // small vocabulary, many duplicates
			ls = append(ls, fmt.Sprintf("w%d", rng.Intn(vocabN)))
		case 1: // mostly unique
			ls = append(ls, fmt.Sprintf("u%d", rng.Intn(n*4+1)))
		case 2:
			ls = append(ls, diffish[rng.Intn(len(diffish))])
		case 4: // lines of arbitrary bytes (everything but newline), a few of them repeated
			if rng.Intn(60) == 0 {
				// a line at or beyond the size of a typical line buffer
				k := []int{4094, 4095, 4096, 4097, 8192, 70000}[rng.Intn(6)]
				ls = append(ls, strings.Repeat("L", k)+fmt.Sprint(rng.Intn(3)))
				break
			}
			if len(ls) > 0 && rng.Intn(4) == 0 {
				ls = append(ls, ls[rng.Intn(len(ls))])
				break
			}
			b := make([]byte, rng.Intn(24))
			for j := range b {
				b[j] = byte(rng.Intn(256))
				if rng.Intn(3) == 0 {
					special := "%\\ \t-+@\r\x00%s"
					b[j] = special[rng.Intn(len(special))]
				}
				if b[j] == '\n' {
					b[j] = '%'
				}
			}
			ls = append(ls, string(b))
		default:
			if rng.Intn(3) == 0 {
				ls = append(ls, diffish[rng.Intn(len(diffish))])
			} else {
				ls = append(ls, fmt.Sprintf("l%d", rng.Intn(vocabN*3)))
			}
		}
	}
	return textFrom(ls, rng.Intn(3) != 0)
}

// mutate derives a second text from a by line edits, so that the pair shares
// long common runs (exercises context handling and hunk splitting).
func mutate(rng *rand.Rand, a []byte) []byte {
	ls := strings.Split(string(a), "\n")
	k := 1 + rng.Intn(6)
	if len(ls) > 60 && rng.Intn(2) == 0 {
		k = len(ls)/40 + rng.Intn(len(ls)/8) // many separate hunks in a long text
	}
	for ; k > 0; k-- {
		if len(ls) == 0 {
			ls = append(ls, "new")
			continue
		}
		i := rng.Intn(len(ls))
		switch rng.Intn(4) {
		case 0:
			ls = append(ls[:i], ls[i+1:]...)
		case 1:
			ls = append(ls[:i], append([]string{fmt.Sprintf("ins%d", rng.Intn(5))}, ls[i:]...)...)
		case 2:
			ls[i] = fmt.Sprintf("chg%d", rng.Intn(5))
		default:
			j := rng.Intn(len(ls))
			ls[i], ls[j] = ls[j], ls[i]
		}
	}
	return []byte(strings.Join(ls, "\n"))
}

func main() {
	vlib.Main("C08", "exploration", 10*time.Minute, func(r *vlib.Run) {
		run = r
		if p := vlib.ReplayPath(); p != "" {
			var c tcase
			if err := vlib.LoadReplayCase(p, &c); err != nil {
				r.Inconclusive("cannot load replay: " + err.Error())
				return
			}
			a, _ := hex.DecodeString(c.OldHex)
			b, _ := hex.DecodeString(c.NewHex)
			checkPair(a, b, "a", "b")
			r.DistinctBulk(2)
			return
		}
		r.Rule("pairs of texts: (1) all pairs of texts of up to N lines over {a,b,empty line} with and without final newline; (2) the same short texts around 0..8 common context lines (unique or repeated) to exercise hunk splitting; (3) every reordering of 2-7 (thorough 8) lines that occur once in both texts; (4) random long texts (small vocabularies, unique lines, diff-syntax and format-string look-alikes, CR/NUL, lines of arbitrary bytes) and their line-edited variants. Non-trivial = the two texts differ (a diff is produced, parsed and applied both ways).")
		r.Assume("the strict parser/applier in checks/c08/udiff.go defines well-formedness; GNU patch 2.7 is a second applier on a tame alphabet")
		W := runtime.NumCPU()
		texts := allTexts([]string{"a", "b", ""}, r.Pick(4, 5))
		r.Set("exhaustive_texts", len(texts))
		var nt int64
		vlib.Parallel(len(texts), W, func(i int) {
			var l int64
			for j := range texts {
				checkPair(texts[i], texts[j], "a", "b")
				if i != j {
					l++
				}
			}
			atomic.AddInt64(&nt, l)
		})
		r.DistinctBulk(nt)
		r.Sample(map[string]any{"kind": "exhaustive-pair", "old": "a\nb", "new": "b\n\na\n", "pairs": len(texts) * len(texts)})

		// short texts around common context
		small := allTexts([]string{"a", "b"}, 2)
		var ctxCases int64
		type job struct{ k, mode int }
		var jobs []job
		for k := 0; k <= 8; k++ {
			for mode := 0; mode < 3; mode++ {
				jobs = append(jobs, job{k, mode})
			}
		}
		vlib.Parallel(len(jobs), W, func(ji int) {
			jb := jobs[ji]
			var ctx []string
			for c := 0; c < jb.k; c++ {
				switch jb.mode {
				case 0:
					ctx = append(ctx, fmt.Sprintf("c%d", c))
				case 1:
					ctx = append(ctx, "c")
				default:
					ctx = append(ctx, []string{"a", "b"}[c%2])
				}
			}
			mid := strings.Join(ctx, "\n")
			if jb.k > 0 {
				mid += "\n"
			}
			nl := func(t []byte) []byte { // make a prefix newline-terminated
				if len(t) > 0 && t[len(t)-1] != '\n' {
					return append(append([]byte{}, t...), '\n')
				}
				return t
			}
			var l int64
			for _, p1 := range small {
				for _, q1 := range small {
					for _, p2 := range small {
						for _, q2 := range small {
							a := cat(nl(p1), []byte(mid), p2)
							b := cat(nl(q1), []byte(mid), q2)
							checkPair(a, b, "a", "b")
							if !bytes.Equal(a, b) {
								l++
							}
						}
					}
				}
			}
			atomic.AddInt64(&ctxCases, l)
		})
		r.DistinctBulk(ctxCases)
		r.Set("context_split_pairs", ctxCases)

		// reorderings: every permutation of 2..7 (thorough: 8) lines that each occur once in both texts -
		// the anchor selection sees nothing but moved unique lines - alone and between two repeated lines
		maxPerm := r.Pick(7, 8)
		var permCases int64
		var permJobs [][]int
		var gen func(cur []int, used int, n int)
		gen = func(cur []int, used int, n int) {
			if len(cur) == n {
				permJobs = append(permJobs, append([]int{}, cur...))
				return
			}
			for v := 0; v < n; v++ {
				if used&(1<<v) == 0 {
					gen(append(cur, v), used|1<<v, n)
				}
			}
		}
		for n := 2; n <= maxPerm; n++ {
			gen(nil, 0, n)
		}
		vlib.Parallel(len(permJobs), W, func(i int) {
			pm := permJobs[i]
			var oldL, newL []string
			for v := range pm {
				oldL = append(oldL, fmt.Sprintf("line %c", 'a'+v))
			}
			for _, v := range pm {
				newL = append(newL, fmt.Sprintf("line %c", 'a'+v))
			}
			a, b := textFrom(oldL, true), textFrom(newL, i%3 != 0)
			checkPair(a, b, "a", "b")
			if i%4 == 0 {
				// the same between repeated lines (which are no anchors)
				checkPair(cat([]byte("}\n\n"), a, []byte("}\n")), cat([]byte("}\n\n"), b, []byte("}\n")), "a", "b")
			}
			if !bytes.Equal(a, b) {
				atomic.AddInt64(&permCases, 1)
			}
		})
		r.DistinctBulk(permCases)
		r.Set("reordering_pairs", permCases)

		// random
		nrand := r.Pick(20000, 400000)
		vlib.Parallel(W, W, func(w int) {
			rng := r.Rand(fmt.Sprintf("rand-%d", w))
			for i := w; i < nrand; i += W {
				a := randomText(rng)
				var b []byte
				if rng.Intn(4) == 0 {
					b = randomText(rng)
				} else {
					b = mutate(rng, a)
				}
				on, nn := "a", "b"
				if rng.Intn(8) == 0 {
					on, nn = "dir/old file.txt", "new\tname"
				}
				checkPair(a, b, on, nn)
				if !bytes.Equal(a, b) {
					r.DistinctBytes(append(append(append([]byte{}, a...), 0xff), b...))
				}
				if i < 3 {
					r.Sample(map[string]any{"kind": "random", "old": vlib.Q(a), "new": vlib.Q(b)})
				}
			}
		})

		// GNU patch cross-check on a tame alphabet (no CR, NUL, backslash lines)
		npatch := r.Pick(300, 6000)
		var patchOK, patchSkipped int64
		if _, err := exec.LookPath("patch"); err != nil {
			r.Set("gnu_patch", "not available")
		} else {
			vlib.Parallel(W, W, func(w int) {
				rng := r.Rand(fmt.Sprintf("patch-%d", w))
				dir, _ := os.MkdirTemp(vlib.Scratch(), "patch")
				for i := w; i < npatch; i += W {
					mk := func() []byte {
						n := rng.Intn(25)
						var ls []string
						for j := 0; j < n; j++ {
							ls = append(ls, fmt.Sprintf("t%d", rng.Intn(6)))
						}
						return textFrom(ls, rng.Intn(3) != 0)
					}
					a := mk()
					b := mutate(rng, a)
					if rng.Intn(3) == 0 {
						b = mk()
					}
					if bytes.Equal(a, b) {
						continue
					}
					var out []byte
					if pv, _ := vlib.Try(func() { out = diff.Diff("a", a, "b", b) }); pv != nil {
						continue // reported by checkPair paths
					}
					d, perr := parseUnified(out, "a", "b")
					var mine []byte
					var merr error
					if perr == nil {
						mine, merr = d.apply(a, false)
					}
					res, err := gnuPatch(dir, a, out)
					mineOK := perr == nil && merr == nil && bytes.Equal(mine, b)
					gnuOK := err == nil && bytes.Equal(res, b)
					switch {
					case mineOK && gnuOK:
						atomic.AddInt64(&patchOK, 1)
					case !mineOK && !gnuOK:
						report("gnu-patch-and-reference-reject", a, b, out, fmt.Sprintf("both appliers fail: reference: %v %v; GNU patch: %v", perr, merr, err))
					default:
						atomic.AddInt64(&patchSkipped, 1)
						r.Inconclusive(fmt.Sprintf("appliers disagree on old=%s new=%s (reference ok=%v, GNU patch ok=%v err=%v)", vlib.Q(a), vlib.Q(b), mineOK, gnuOK, err))
					}
					r.Eval(1)
				}
			})
			r.Set("gnu_patch_agreed", atomic.LoadInt64(&patchOK))
		}
		if !r.Quick() {
			inputs, execs, ok := vlib.GoFuzz("checks/c08", "FuzzDiff", 60*time.Second)
			r.Set("native_fuzzing", map[string]any{"target": "FuzzDiff", "ran": ok, "last_progress_line": execs, "failing_inputs": len(inputs)})
			for _, args := range inputs {
				if len(args) == 2 {
					checkPair(args[0], args[1], "a", "b")
				}
			}
		}
		r.Set("hunks_parsed", atomic.LoadInt64(&nHunks))
		r.Set("diffs_with_several_hunks", atomic.LoadInt64(&nMultiHunk))
		r.Set("diffs_with_no_newline_marker", atomic.LoadInt64(&nNoNL))
	})
}
