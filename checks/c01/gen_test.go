package main

import (
	"math/rand"
	"strings"
	"testing"
)

func TestGenCountFailures(t *testing.T) {
	r := rand.New(rand.NewSource(1))
	n, less := 0, 0
	for i := 0; i < 3000; i++ {
		g := gen(r, i, false)
		for _, l := range strings.Split(g.text, "\n") {
			if strings.Contains(l, "-count=") {
				n++
			}
		}
		_ = less
	}
	t.Logf("lines with -count: %d", n)
}
