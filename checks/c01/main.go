// C01: testscript verdict - a script passes iff every executed line meets its demand.
// Oracle: reference model of the documented script language (checks/c01/model.go):
// scripts are generated state-aware, so the model knows which line must fail
// first (or none), which lines run, and the resulting file tree. Observed: verdict
// and log of the real RunT through a recording T (two styles), probe commands,
// the work directory left under WorkdirRoot, and the exit status / log of the
// real cmd/testscript binary on the same script.
package main

import (
	"bytes"
	"fmt"
	"math/rand"
	"os"
	"os/exec"
	"path/filepath"
	"regexp"
	"sort"
	"strconv"
	"strings"
	"sync"
	"syscall"
	"time"

	"github.com/rogpeppe/go-internal/testscript"

	"verif/tsh"
	"verif/vlib"
)

type genScript struct {
	name             string
	text             string // whole file (script + archive)
	lines            []line
	continueOn       bool
	explicit         bool
	unique           bool
	custom           bool
	cli              bool
	verdict          string // pass / fail / skip
	failLines        []int  // line numbers that must be reported as failing (first only unless continueOn)
	probes           []int  // probe ids that must execute, in order
	final            *model
	setupFail        bool
	sig              string
	skipAfterFailure bool
}

type scase struct {
	Kind   string `json:"kind"`
	Script string `json:"script_file_contents"`
	Params string `json:"params"`
	Want   string `json:"model_says"`
	Got    string `json:"observed"`
	Log    string `json:"log_tail"`
}

var (
	run      *vlib.Run
	kindMu   sync.Mutex
	kindSeen = map[string]int{}
)

func limited(kind string) bool {
	kindMu.Lock()
	defer kindMu.Unlock()
	kindSeen[kind]++
	return kindSeen[kind] > 4
}

var archiveNames = []string{"a.txt", "b.txt", "same.txt", "d1/x.txt", "d1/d2/deep.txt", "q.txt", "tpl.txt", "tpl2.txt", "$WORK/w.txt", "empty"}

func gen(r *rand.Rand, idx int, cli bool) *genScript {
	g := &genScript{name: fmt.Sprintf("s%d", idx), cli: cli}
	g.continueOn = r.Intn(3) == 0
	g.explicit = !cli && r.Intn(4) == 0
	g.unique = !cli && r.Intn(4) == 0
	g.custom = !cli
	m := newModel(r)
	m.explicitExec, m.customCmds, m.customCond, m.cli = g.explicit, g.custom, g.custom && r.Intn(2) == 0, cli
	// what the Condition function of this script's RunT call answers for [flavour]: differs between the
	// RunT calls of one process (an answer is the function's, per call - not something to remember per name)
	m.flavour = m.customCond && r.Intn(2) == 0
	// archive
	var arch strings.Builder
	dup := r.Intn(8) == 0
	type ent struct{ name, data string }
	var ents []ent
	for _, n := range archiveNames {
		if r.Intn(3) == 0 {
			continue
		}
		d := m.text()
		switch n {
		case "same.txt":
			if len(ents) > 0 {
				d = ents[0].data
			}
		case "q.txt":
			d = ">quoted line\n>-- not a marker --\n"
		case "tpl.txt":
			d = "$GREETING\n"
		case "tpl2.txt":
			d = "${V1} and $V2\n"
		case "empty":
			d = ""
		}
		if !strings.HasSuffix(d, "\n") && d != "" {
			d += "\n" // txtar adds the final newline anyway
		}
		ents = append(ents, ent{n, d})
	}
	if dup && len(ents) > 0 {
		ents = append(ents, ent{ents[0].name, "second copy\n"})
	}
	for _, e := range ents {
		fmt.Fprintf(&arch, "-- %s --\n%s", e.name, e.data)
		p := m.resolve(e.name)
		m.mkdirAll(filepath.Dir(p))
		m.fs[p] = &node{kind: kFile, data: e.data}
		if strings.HasPrefix(e.name, "tpl") {
			m.tpls = append(m.tpls, p)
		}
	}
	if dup && len(ents) > 0 && g.unique {
		g.setupFail = true
	}
	// lines
	n := 4 + r.Intn(14)
	failAt := -1
	if r.Intn(5) != 0 {
		failAt = r.Intn(n)
	}
	var sb strings.Builder
	lineno := 0
	emit := func(t string) int {
		lineno++
		sb.WriteString(t + "\n")
		return lineno
	}
	probeID := 0
	ended := false // model frozen: script has stopped / skipped / failed (non-continue)
	failed := false
	g.verdict = "pass"
	var kinds []string
	for i := 0; i < n; i++ {
		if r.Intn(5) == 0 {
			emit(fmt.Sprintf("# phase %d", i))
		}
		if r.Intn(8) == 0 {
			emit("")
		}
		if ended || g.setupFail {
			// filler with visible effects: must never run
			emit(fmt.Sprintf("mkdir after%d", i))
			emit(fmt.Sprintf("exec vhelper touch aftertouch%d", i))
			if g.custom {
				probeID++
				emit(fmt.Sprintf("probe %d", probeID))
			}
			continue
		}
		wantOK := !(i == failAt || (failed && r.Intn(3) == 0))
		t, o, what, ap := m.gen(wantOK)
		runs := true
		if r.Intn(4) == 0 && !m.fromQueue && !strings.Contains(t, "unterminated") && o != oStop && o != oSkip {
			var co outcome
			t, runs, co = m.cond(t)
			if co == oFail {
				o, ap, runs = oFail, nil, true
			} else if !runs {
				o, ap = oOK, nil
			}
		} else if !wantOK && r.Intn(25) == 0 {
			t, o, ap = "[linux]", oFail, nil // missing command after condition
		}
		ln := emit(t)
		kinds = append(kinds, what)
		switch o {
		case oOK:
			if ap != nil && runs {
				ap()
			}
		case oFail:
			if ap != nil {
				ap()
			}
			g.failLines = append(g.failLines, ln)
			failed = true
			g.verdict = "fail"
			if !g.continueOn {
				ended = true
			}
		case oStop:
			ended = true
		case oSkip:
			ended = true
			if failed {
				g.skipAfterFailure = true // ContinueOnError: the run must still fail
			} else {
				g.verdict = "skip"
			}
		}
		if g.custom && !(ended && o == oFail) && o != oStop && o != oSkip {
			probeID++
			emit(fmt.Sprintf("probe %d", probeID))
			g.probes = append(g.probes, probeID)
		} else if g.custom {
			probeID++
			emit(fmt.Sprintf("probe %d", probeID))
		}
	}
	if g.setupFail {
		g.verdict = "fail"
		g.failLines = nil
		g.probes = nil
	}
	g.final = m
	g.text = sb.String() + "\n" + arch.String()
	g.sig = fmt.Sprintf("%v|%v|%v|%s|%s|%v", g.continueOn, g.explicit, g.unique, strings.Join(kinds, ","), g.verdict, g.failLines)
	return g
}

var failRe = regexp.MustCompile(`(?m)^FAIL: (\S+):(\d+): (.*)$`)

func failLinesIn(log, file string) []int {
	var out []int
	for _, mm := range failRe.FindAllStringSubmatch(log, -1) {
		if filepath.Base(mm[1]) != filepath.Base(file) {
			continue
		}
		n, _ := strconv.Atoi(mm[2])
		out = append(out, n)
	}
	return out
}

func paramsDesc(g *genScript) string {
	return fmt.Sprintf("ContinueOnError=%v RequireExplicitExec=%v RequireUniqueNames=%v customCmds=%v", g.continueOn, g.explicit, g.unique, g.custom)
}

// compareTree compares the work directory left behind with the model's tree.
func compareTree(root string, m *model) string {
	got := map[string]string{}
	filepath.Walk(root, func(p string, info os.FileInfo, err error) error {
		if err != nil {
			return nil
		}
		rel, _ := filepath.Rel(root, p)
		if rel == "." || rel == ".tmp" || strings.HasPrefix(rel, ".tmp/") {
			return nil
		}
		switch {
		case info.Mode()&os.ModeSymlink != 0:
			t, _ := os.Readlink(p)
			got[rel] = "link:" + t
		case info.IsDir():
			got[rel] = "dir"
		default:
			b, _ := os.ReadFile(p)
			got[rel] = fmt.Sprintf("file:%o:%s", info.Mode().Perm(), b)
		}
		return nil
	})
	var diffs []string
	for p, n := range m.fs {
		if p == "" || p == ".tmp" || strings.HasPrefix(p, ".tmp/") || n.volatile {
			continue
		}
		g, ok := got[p]
		if !ok {
			diffs = append(diffs, fmt.Sprintf("%s is missing (model: %v)", p, n.kind))
			continue
		}
		switch n.kind {
		case kDir:
			if g != "dir" {
				diffs = append(diffs, fmt.Sprintf("%s should be a directory, is %s", p, short(g)))
			}
		case kLink:
			if g != "link:"+n.target {
				diffs = append(diffs, fmt.Sprintf("%s should be a symlink to %s, is %s", p, n.target, short(g)))
			}
		default:
			parts := strings.SplitN(g, ":", 3)
			if parts[0] != "file" {
				diffs = append(diffs, fmt.Sprintf("%s should be a file, is %s", p, short(g)))
				continue
			}
			if parts[2] != n.data {
				diffs = append(diffs, fmt.Sprintf("%s holds %q, model says %q", p, parts[2], n.data))
			}
			if n.mode != 0 && parts[1] != fmt.Sprintf("%o", n.mode&^0o022) && parts[1] != fmt.Sprintf("%o", n.mode) {
				diffs = append(diffs, fmt.Sprintf("%s has mode %s, model says %o", p, parts[1], n.mode))
			}
		}
	}
	for p, g := range got {
		if _, ok := m.fs[p]; !ok {
			diffs = append(diffs, fmt.Sprintf("%s exists (%s) but no executed line creates it", p, short(g)))
		}
	}
	sort.Strings(diffs)
	if len(diffs) > 6 {
		diffs = diffs[:6]
	}
	return strings.Join(diffs, "; ")
}

func short(s string) string {
	if len(s) > 60 {
		return s[:60] + "..."
	}
	return s
}

type probeRec struct {
	mu  sync.Mutex
	ids map[string][]int
}

func main() {
	tsh.Main("C01", "exploration", 12*time.Minute, func(r *vlib.Run) {
		run = r
		r.Rule("scripts generated state-aware from the reference model: 4-17 command lines (cd chmod cmp cmpenv cp env exec exists grep kill mkdir mv rm skip stop stdin stdout stderr symlink unquote unix2dos wait, custom commands, background '&' / '&name&', '!' and [cond] prefixes incl. custom and unknown conditions), a chosen first failing line (or none) with a specific failure cause, phases and blank lines, filler lines with visible effects after the end; Params axes ContinueOnError / RequireExplicitExec / RequireUniqueNames / custom Cmds (some under the names of standard commands, which must never be consulted) / custom Condition, two T styles (sentinel panic, Goexit), verbose on/off; a probe command after every line records what ran. The same (custom-free) scripts also go through the real cmd/testscript binary, singly and in batches. Non-trivial/distinct = distinct (params, command-kind sequence, verdict, failing lines) signatures.")
		r.Assume("only documented behaviour is generated; runs as root (permission bits are compared, not enforced); killing a job that may already have exited, and skip/stop while jobs are outstanding, are not generated (timing dependent / documented differently from what any implementation does)")
		base := vlib.Scratch()
		rng := r.Rand("scripts")
		nscripts := r.Pick(1200, 24000)
		batch := 40
		pr := &probeRec{ids: map[string][]int{}}
		cmds := map[string]func(ts *testscript.TestScript, neg bool, args []string){
			"probe": func(ts *testscript.TestScript, neg bool, args []string) {
				n, _ := strconv.Atoi(args[0])
				pr.mu.Lock()
				pr.ids[ts.Name()] = append(pr.ids[ts.Name()], n)
				pr.mu.Unlock()
			},
			"okcmd": func(ts *testscript.TestScript, neg bool, args []string) {},
			// Entries under names of the standard set, or of commands that Main registered: Params.Cmds is
			// "only consulted for commands not part of the standard set", so none of these is ever run.
			"exists":  func(ts *testscript.TestScript, neg bool, args []string) {},
			"stop":    func(ts *testscript.TestScript, neg bool, args []string) {},
			"grep":    func(ts *testscript.TestScript, neg bool, args []string) {},
			"mkdir":   func(ts *testscript.TestScript, neg bool, args []string) {},
			"cmp":     func(ts *testscript.TestScript, neg bool, args []string) { ts.Fatalf("a custom cmp was run") },
			"wait":    func(ts *testscript.TestScript, neg bool, args []string) {},
			"vhelper": func(ts *testscript.TestScript, neg bool, args []string) { ts.Fatalf("a custom vhelper was run") },
			"failcmd": func(ts *testscript.TestScript, neg bool, args []string) {
				ts.Fatalf("failcmd: %s", strings.Join(args, " "))
			},
			"mustneg": func(ts *testscript.TestScript, neg bool, args []string) {
				if !neg {
					ts.Fatalf("mustneg without !")
				}
			},
			"say": func(ts *testscript.TestScript, neg bool, args []string) {
				fmt.Fprintln(ts.Stdout(), strings.Join(args, " "))
			},
		}
		condFn := func(c string) (bool, error) {
			switch c {
			case "always":
				return true, nil
			case "never":
				return false, nil
			}
			return false, fmt.Errorf("condition %q is not known", c)
		}
		var nPass, nFail, nSkip, nTree int
		for b := 0; b < nscripts; b += batch {
			if r.Violations() >= 8 {
				r.Set("stopped_early_after_violations", r.Violations())
				break
			}
			dir := filepath.Join(base, fmt.Sprintf("b%d", b))
			// group scripts by Params (one RunT call per distinct Params value)
			groups := map[string][]*genScript{}
			for i := b; i < b+batch && i < nscripts; i++ {
				g := gen(rng, i, false)
				key := fmt.Sprintf("%v%v%v%v%v", g.continueOn, g.explicit, g.unique, g.final.customCond, g.final.flavour)
				groups[key] = append(groups[key], g)
			}
			var keys []string
			for k := range groups {
				keys = append(keys, k)
			}
			sort.Strings(keys)
			for gi, k := range keys {
				gs := groups[k]
				gdir := filepath.Join(dir, fmt.Sprintf("g%d", gi))
				wroot := filepath.Join(gdir, "work")
				os.MkdirAll(wroot, 0o777)
				var files []string
				for _, g := range gs {
					f := filepath.Join(gdir, g.name+".txt")
					os.WriteFile(f, []byte(g.text), 0o666)
					files = append(files, f)
				}
				// safety net only: a script that hangs (no generated script may) is ended by the deadline and then
				// shows up as a verdict mismatch instead of stalling the whole check
				p := testscript.Params{Files: files, Cmds: cmds, WorkdirRoot: wroot, Deadline: time.Now().Add(30 * time.Second),
					ContinueOnError: gs[0].continueOn, RequireExplicitExec: gs[0].explicit, RequireUniqueNames: gs[0].unique}
				if gs[0].final.customCond {
					flavour := gs[0].final.flavour
					p.Condition = func(c string) (bool, error) {
						if c == "flavour" {
							return flavour, nil
						}
						return condFn(c)
					}
				}
				style := tsh.Style((b/batch + gi) % 2)
				verbose := (b/batch+gi)%3 == 0
				root := tsh.NewRoot(style, verbose, false)
				root.Run("batch", func(t testscript.T) { testscript.RunT(t, p) })
				root.Release()
				subs := map[string]*tsh.RecT{}
				for _, sub := range root.Subs[0].Subs {
					subs[sub.Name] = sub
				}
				for _, g := range gs {
					r.Eval(1)
					r.Distinct(g.sig)
					sub := subs[g.name]
					file := filepath.Join(gdir, g.name+".txt")
					fail := func(kind, want, got string) {
						if limited(kind) {
							r.Count("suppressed_duplicate_reports_"+kind, 1)
							return
						}
						lg := ""
						if sub != nil {
							lg = sub.LogText()
						}
						r.Violation(fmt.Sprintf("%s script=%s seed=%d want=%s got=%s", kind, g.name, r.Seed, want, got),
							fmt.Sprintf("%s: model says %s, observed %s (%s, T style %d, verbose %v); script:\n%s", kind, want, got, paramsDesc(g), style, verbose, firstLines(g.text, 40)),
							scase{kind, g.text, paramsDesc(g), want, got, tailN(lg, 3000)})
					}
					if sub == nil {
						r.Inconclusive("no subtest for " + g.name)
						continue
					}
					v := sub.Verdict()
					switch v {
					case "pass":
						nPass++
					case "fail":
						nFail++
					case "skip":
						nSkip++
					}
					wantV := g.verdict
					if g.skipAfterFailure {
						wantV = "fail"
					}
					if v != wantV {
						kind := "wrong-verdict"
						if g.skipAfterFailure {
							kind = "skip-after-failure-not-failed"
						}
						fail(kind, wantV, v)
						continue
					}
					log := sub.LogText()
					if g.setupFail {
						continue
					}
					got := failLinesIn(log, file)
					if g.continueOn {
						if !eqInts(got, g.failLines) {
							fail("wrong-failing-lines", fmt.Sprint(g.failLines), fmt.Sprint(got))
						}
					} else if len(g.failLines) > 0 {
						if len(got) == 0 || got[0] != g.failLines[0] {
							fail("wrong-first-failing-line", fmt.Sprint(g.failLines[0]), fmt.Sprint(got))
						}
					} else if len(got) > 0 {
						fail("failure-logged-in-passing-run", "no FAIL line", fmt.Sprint(got))
					}
					pr.mu.Lock()
					ids := pr.ids[g.name]
					pr.mu.Unlock()
					if !eqInts(ids, g.probes) {
						fail("wrong-set-of-executed-lines", "probes "+fmt.Sprint(g.probes), "probes "+fmt.Sprint(ids))
						continue
					}
					if d := compareTree(filepath.Join(wroot, "script-"+g.name), g.final); d != "" {
						fail("wrong-file-tree", "the tree the executed lines produce", d)
					}
					nTree++
					if g.name == "s0" || g.name == "s1" {
						r.Sample(map[string]any{"kind": "script", "params": paramsDesc(g), "verdict": g.verdict, "failing_lines": g.failLines, "text": firstLines(g.text, 30)})
					}
				}
				pr.mu.Lock()
				pr.ids = map[string][]int{}
				pr.mu.Unlock()
			}
			os.RemoveAll(dir)
		}
		r.Set("scripts_passed", nPass)
		r.Set("scripts_failed", nFail)
		r.Set("scripts_skipped", nSkip)
		r.Set("trees_compared", nTree)

		// ---- the standalone command
		cliBin := filepath.Join(os.Getenv("VERIF_BUILD"), "testscript-cli")
		bindir := filepath.Dir(lookHelper())
		ncli := r.Pick(120, 2500)
		var nCliOK, nCliFail int
		crng := r.Rand("cli")
		for i := 0; i < ncli; i++ {
			dir := filepath.Join(base, fmt.Sprintf("cli%d", i))
			os.MkdirAll(dir, 0o777)
			k := 1
			if crng.Intn(3) == 0 {
				k = 2 + crng.Intn(3)
			}
			cont := crng.Intn(3) == 0
			var gs []*genScript
			var files []string
			anyFail := false
			for j := 0; j < k; j++ {
				g := gen(crng, 100000+i*10+j, true)
				g.continueOn = cont
				// regenerate under the batch's -continue setting so that the model matches
				gs = append(gs, g)
			}
			// the generator drew continueOn itself; force a common value by regenerating deterministically
			gs = gs[:0]
			for j := 0; j < k; j++ {
				var g *genScript
				for try := 0; ; try++ {
					g = gen(crng, 100000+i*10+j, true)
					if g.continueOn == cont {
						break
					}
				}
				gs = append(gs, g)
				f := filepath.Join(dir, g.name+".txt")
				os.WriteFile(f, []byte(g.text), 0o666)
				files = append(files, f)
				if g.verdict == "fail" || g.skipAfterFailure {
					anyFail = true
				}
			}
			args := []string{}
			if cont {
				args = append(args, "-continue")
			}
			args = append(args, files...)
			cmd := exec.Command(cliBin, args...)
			cmd.Env = []string{"PATH=" + bindir, "HOME=/no-home", "TMPDIR=" + dir}
			var out bytes.Buffer
			cmd.Stdout, cmd.Stderr = &out, &out
			// a run that does not end (a changed tree can make a script wait for ever) is given up on
			// after 45 seconds: inconclusive for this case, the other cases still get their verdicts
			cmd.SysProcAttr = &syscall.SysProcAttr{Setpgid: true}
			var err error
			if err = cmd.Start(); err == nil {
				done := make(chan error, 1)
				go func() { done <- cmd.Wait() }()
				select {
				case err = <-done:
				case <-time.After(45 * time.Second):
					syscall.Kill(-cmd.Process.Pid, syscall.SIGKILL)
					<-done
					r.Inconclusive(fmt.Sprintf("the testscript command did not end within 45 seconds on %v", files))
					os.RemoveAll(dir)
					continue
				}
			}
			code := 0
			if ee, ok := err.(*exec.ExitError); ok {
				code = ee.ExitCode()
			} else if err != nil {
				r.Inconclusive("cannot run the testscript command: " + err.Error())
				continue
			}
			r.Eval(1)
			if code == 0 {
				nCliOK++
			} else {
				nCliFail++
			}
			var sigs []string
			for _, g := range gs {
				sigs = append(sigs, g.sig)
			}
			r.Distinct("cli|" + strings.Join(sigs, "||"))
			report := func(kind, want, got string) {
				if limited(kind) {
					return
				}
				var all []string
				for _, g := range gs {
					all = append(all, g.text)
				}
				r.Violation(fmt.Sprintf("%s cli=%d seed=%d", kind, i, r.Seed), fmt.Sprintf("%s: testscript %s: model says %s, observed %s; first script:\n%s", kind, strings.Join(args[:len(args)-len(files)], " "), want, got, firstLines(gs[0].text, 30)),
					scase{kind, strings.Join(all, "\n=====\n"), fmt.Sprintf("-continue=%v files=%d", cont, k), want, got, tailN(out.String(), 3000)})
			}
			if anyFail != (code != 0) {
				report("cli-wrong-exit-status", fmt.Sprintf("exit status %s", map[bool]string{true: "non-zero (a script fails)", false: "0 (no script fails)"}[anyFail]), fmt.Sprintf("exit status %d", code))
			} else if code != 0 && code != 1 {
				report("cli-unexpected-exit-status", "exit status 1", fmt.Sprintf("exit status %d", code))
			} else if k == 1 && !gs[0].setupFail && len(gs[0].failLines) > 0 {
				got := failLinesIn(out.String(), files[0])
				if len(got) == 0 || got[0] != gs[0].failLines[0] {
					report("cli-wrong-first-failing-line", fmt.Sprint(gs[0].failLines[0]), fmt.Sprint(got))
				}
			}
			os.RemoveAll(dir)
		}
		r.Set("cli_runs_exit_0", nCliOK)
		r.Set("cli_runs_exit_nonzero", nCliFail)
		if esc := tsh.PanicEscapes.List(); len(esc) > 0 {
			r.Violation("panic-escaped "+esc[0], "a panic other than the T's own exit escaped a script run: "+esc[0], esc)
		}
		if nPass < 20 || nFail < 20 || nSkip < 3 {
			r.Inconclusive("too few passing / failing / skipped scripts generated")
		}
	})
}

func lookHelper() string {
	p, err := exec.LookPath("vhelper")
	if err != nil {
		return "/nonexistent/vhelper"
	}
	return p
}

func eqInts(a, b []int) bool {
	if len(a) != len(b) {
		return false
	}
	for i := range a {
		if a[i] != b[i] {
			return false
		}
	}
	return true
}

func tailN(s string, n int) string {
	if len(s) > n {
		return s[len(s)-n:]
	}
	return s
}

func firstLines(s string, n int) string {
	ls := strings.Split(s, "\n")
	if len(ls) > n {
		ls = append(ls[:n], "...")
	}
	for i := range ls {
		ls[i] = fmt.Sprintf("%3d  %s", i+1, ls[i])
	}
	return strings.Join(ls, "\n")
}
