package main

import (
	"fmt"
	"math/rand"
	"os"
	"path"
	"regexp"
	"sort"
	"strings"
)

// Reference model of the documented script language. Lines are generated
// state-aware: the generator knows, from the model state alone, whether the
// line it emits must succeed or fail, and how it changes the state.

type nodeKind int

const (
	kFile nodeKind = iota
	kDir
	kLink
)

type node struct {
	kind     nodeKind
	data     string
	mode     os.FileMode // permission bits as the script set them (0 = default, not compared)
	target   string
	volatile bool // content/presence depends on timing: not compared
}

type bgProc struct {
	name   string
	neg    bool
	hang   bool // blocks until signalled
	code   int  // exit status of a quick process
	out    string
	killed bool
}

type queued struct {
	text string
	what string
	ap   func()
}

type outcome int

const (
	oOK outcome = iota
	oFail
	oStop
	oSkip
)

type line struct {
	text    string
	out     outcome
	isProbe bool
	probeID int
	lineno  int
	what    string // generator kind, for signatures and reports
}

type model struct {
	fs           map[string]*node // path relative to $WORK ("" is $WORK itself)
	cwd          string
	env          map[string]string
	stdout       string
	stderr       string
	stdoutKnown  bool
	stdin        string
	bg           []bgProc
	explicitExec bool
	customCmds   bool
	customCond   bool
	flavour      bool // answer of the custom condition [flavour] in this script's RunT call
	cli          bool // script must be runnable by cmd/testscript (no custom commands / conditions)
	r            *rand.Rand
	nameCtr      int
	noMoreBg     bool
	queue        []queued
	shadowed     bool // the PATH-shadow sequence has been used in this script
	fromQueue    bool
	tpls         []string
}

func newModel(r *rand.Rand) *model {
	m := &model{fs: map[string]*node{"": {kind: kDir}, ".tmp": {kind: kDir}}, env: map[string]string{}, r: r, stdoutKnown: true}
	return m
}

func (m *model) resolve(p string) string {
	if strings.HasPrefix(p, "$WORK") {
		p = strings.TrimPrefix(strings.TrimPrefix(p, "$WORK"), "/")
		return path.Clean("/" + p)[1:]
	}
	return path.Clean("/" + path.Join(m.cwd, p))[1:]
}

// rel returns a script spelling of the model path p (relative to cwd, or via $WORK).
func (m *model) spell(p string) string {
	if m.cwd == "" {
		if m.r.Intn(6) == 0 {
			return "$WORK/" + p
		}
		return p
	}
	if strings.HasPrefix(p, m.cwd+"/") && m.r.Intn(3) != 0 {
		return strings.TrimPrefix(p, m.cwd+"/")
	}
	return "$WORK/" + p
}

// stat follows one level of symlink, like os.Stat on our trees.
func (m *model) stat(p string) *node {
	n := m.fs[p]
	if n == nil {
		return nil
	}
	if n.kind == kLink {
		t := n.target
		if !strings.HasPrefix(t, "/") {
			t = path.Join(path.Dir(p), t)
		}
		t = path.Clean("/" + t)[1:]
		tn := m.fs[t]
		if tn == nil || tn.kind == kLink {
			return nil
		}
		return tn
	}
	return n
}

func (m *model) paths(pred func(p string, n *node) bool) []string {
	var out []string
	for p, n := range m.fs {
		if p == "" || strings.HasPrefix(p, ".tmp") {
			continue
		}
		if pred(p, n) {
			out = append(out, p)
		}
	}
	sort.Strings(out)
	return out
}

func (m *model) files() []string {
	return m.paths(func(p string, n *node) bool { return n.kind == kFile && !n.volatile })
}
func (m *model) dirs() []string {
	return m.paths(func(p string, n *node) bool { return n.kind == kDir })
}

func (m *model) pick(l []string) string { return l[m.r.Intn(len(l))] }

func (m *model) fresh(prefix string) string {
	m.nameCtr++
	dirs := append([]string{""}, m.dirs()...)
	d := m.pick(dirs)
	n := fmt.Sprintf("%s%d", prefix, m.nameCtr)
	if d == "" {
		return n
	}
	return d + "/" + n
}

func (m *model) mkdirAll(p string) {
	for p != "" && p != "." {
		if m.fs[p] == nil {
			m.fs[p] = &node{kind: kDir}
		}
		p = path.Dir(p)
		if p == "." {
			break
		}
	}
}

// writeFile models os.WriteFile: an existing file keeps its permission bits.
func (m *model) writeFile(p, data string, mode os.FileMode) {
	if n := m.fs[p]; n != nil && n.kind == kFile {
		n.data = data
		return
	}
	m.fs[p] = &node{kind: kFile, data: data, mode: mode}
}

func (m *model) removeAll(p string) {
	for q := range m.fs {
		if q == p || strings.HasPrefix(q, p+"/") {
			delete(m.fs, q)
		}
	}
}

func (m *model) rename(a, b string) {
	moved := map[string]*node{}
	for q, n := range m.fs {
		if q == a || strings.HasPrefix(q, a+"/") {
			moved[b+strings.TrimPrefix(q, a)] = n
			delete(m.fs, q)
		}
	}
	for q, n := range moved {
		m.fs[q] = n
	}
}

func expandSimple(s string, env map[string]string) string {
	return os.Expand(s, func(k string) string { return env[k] })
}

func q(s string) string {
	if s == "" {
		return "''"
	}
	if strings.ContainsAny(s, " \t'#$\r") {
		return "'" + strings.ReplaceAll(s, "'", "''") + "'"
	}
	return s
}

func matches(pattern, text string) (bool, int) {
	re := regexp.MustCompile("(?m)" + pattern)
	return re.MatchString(text), len(re.FindAllString(text, -1))
}

var words = []string{"alpha", "beta", "gamma delta", "x", "hello world", "foo.bar", "a+b", "line1", "42"}

func (m *model) text() string {
	n := 1 + m.r.Intn(3)
	var ls []string
	for i := 0; i < n; i++ {
		ls = append(ls, words[m.r.Intn(len(words))])
	}
	s := strings.Join(ls, "\n")
	if m.r.Intn(5) != 0 {
		s += "\n"
	}
	return s
}

// pattern returns a regexp and whether it matches text (computed with Go's regexp, which is trusted).
func (m *model) pattern(text string, wantMatch bool) (string, bool) {
	cands := []string{"alpha", "^beta$", "gam+a", "hello w.rld", "foo\\.bar", "a\\+b", "^x$", "line[0-9]", "^4", "delta$", "nomatch", "z{3}", ".", "a", "l", "[a-z]+", "o"}
	for try := 0; try < 20; try++ {
		p := cands[m.r.Intn(len(cands))]
		if ok, _ := matches(p, text); ok == wantMatch {
			return p, true
		}
	}
	return "", false
}

// gen produces the next line: want=true asks for a line that must succeed, false for one that must fail.
func (m *model) gen(wantOK bool) (text string, out outcome, what string, apply func()) {
	m.fromQueue = false
	if wantOK && len(m.queue) > 0 {
		qd := m.queue[0]
		m.queue = m.queue[1:]
		m.fromQueue = true
		return qd.text, oOK, qd.what, qd.ap
	}
	if !wantOK {
		m.queue = nil // a failing line interrupts a prepared sequence
		// prefer a skip that must fail: only hanging jobs outstanding, one of them started without "!"
		if !m.noMoreBg && len(m.bg) > 0 && m.r.Intn(2) == 0 {
			allHang, bad := true, false
			for _, b := range m.bg {
				if !b.hang {
					allHang = false
				}
				if !b.neg {
					bad = true
				}
			}
			if allHang && bad {
				return m.pick([]string{"skip", "skip 'jobs outstanding'"}), oFail, "end", func() { m.bg = nil; m.stdoutKnown = false; m.bgBroken() }
			}
		}
		// prefer a wait that must fail when a job with an unexpected status is outstanding
		if !m.noMoreBg && m.r.Intn(2) == 0 {
			allDone := true
			bad := false
			for _, b := range m.bg {
				if b.hang && !b.killed {
					allDone = false
				}
				if (!b.hang && b.code == 0) == b.neg {
					bad = true
				}
			}
			if allDone && bad && len(m.bg) > 0 {
				return "wait", oFail, "wait", func() { m.bg = nil; m.stdoutKnown = false; m.bgBroken() }
			}
		}
	}
	if wantOK && len(m.bg) == 0 && !m.noMoreBg && m.r.Intn(12) == 0 {
		m.prepare()
		if len(m.queue) > 0 {
			t, o, w, a := m.gen(true)
			return t, o, w, a
		}
	}
retry:
	for tries := 0; tries < 60; tries++ {
		k := m.r.Intn(34)
		var t string
		var o outcome = oOK
		var ap func()
		w := ""
		files, dirs := m.files(), m.dirs()
		switch k {
		case 0: // mkdir
			w = "mkdir"
			if wantOK {
				a := m.fresh("d")
				b := a + "/sub"
				if m.r.Intn(2) == 0 {
					t = "mkdir " + m.spell(a)
					ap = func() { m.mkdirAll(a) }
				} else {
					t = "mkdir " + m.spell(a) + " " + m.spell(b)
					ap = func() { m.mkdirAll(b) }
				}
			} else {
				t, o = m.pick([]string{"! mkdir zz", "mkdir"}), oFail
			}
		case 1: // cd
			w = "cd"
			if wantOK {
				d := m.pick(append([]string{""}, dirs...))
				sp := m.spell(d)
				if d == "" {
					sp = "$WORK"
				}
				t = "cd " + sp
				ap = func() { m.cwd = d }
			} else {
				o = oFail
				switch m.r.Intn(4) {
				case 0:
					t = "cd " + m.spell(m.fresh("nodir"))
				case 1:
					if len(files) == 0 {
						continue
					}
					t = "cd " + m.spell(m.pick(files))
				case 2:
					t = "! cd $WORK"
				default:
					t = "cd $WORK $WORK"
				}
			}
		case 2, 3: // cp
			w = "cp"
			if len(files) == 0 {
				continue
			}
			src := m.pick(files)
			if wantOK {
				switch m.r.Intn(4) {
				case 0: // file -> new file
					dst := m.fresh("c")
					t = "cp " + m.spell(src) + " " + m.spell(dst)
					ap = func() { m.writeFile(dst, m.fs[src].data, m.fs[src].mode) }
				case 1: // file -> dir
					if len(dirs) == 0 {
						continue
					}
					d := m.pick(dirs)
					dst := d + "/" + path.Base(src)
					if dst == src || (m.fs[dst] != nil && m.fs[dst].kind != kFile) {
						continue
					}
					t = "cp " + m.spell(src) + " " + m.spell(d)
					ap = func() { m.writeFile(dst, m.fs[src].data, m.fs[src].mode) }
				case 2: // stdout -> file
					if !m.stdoutKnown {
						continue
					}
					dst := m.fresh("o")
					which := m.pick([]string{"stdout", "stderr"})
					t = "cp " + which + " " + m.spell(dst)
					data := m.stdout
					if which == "stderr" {
						data = m.stderr
					}
					ap = func() { m.writeFile(dst, data, 0) }
				default: // several -> dir
					if len(dirs) == 0 || len(files) < 2 {
						continue
					}
					d := m.pick(dirs)
					s2 := m.pick(files)
					d1, d2 := d+"/"+path.Base(src), d+"/"+path.Base(s2)
					if d1 == src || d2 == s2 || d1 == s2 || d2 == src || path.Base(src) == path.Base(s2) && src != s2 {
						continue
					}
					if (m.fs[d1] != nil && m.fs[d1].kind != kFile) || (m.fs[d2] != nil && m.fs[d2].kind != kFile) {
						continue
					}
					t = "cp " + m.spell(src) + " " + m.spell(s2) + " " + m.spell(d)
					da, db := m.fs[src].data, m.fs[s2].data
					ma, mb := m.fs[src].mode, m.fs[s2].mode
					ap = func() {
						m.writeFile(d1, da, ma)
						m.writeFile(d2, db, mb)
					}
				}
			} else {
				o = oFail
				switch m.r.Intn(4) {
				case 0:
					t = "cp " + m.spell(m.fresh("missing")) + " " + m.spell(m.fresh("x"))
				case 1:
					t = "cp " + m.spell(src) + " " + m.spell(src) + " " + m.spell(m.fresh("notadir"))
				case 2:
					t = "! cp " + m.spell(src) + " " + m.spell(m.fresh("x"))
				default:
					t = "cp " + m.spell(src)
				}
			}
		case 4: // mv
			w = "mv"
			if len(files) == 0 {
				continue
			}
			src := m.pick(files)
			if wantOK {
				dst := m.fresh("m")
				t = "mv " + m.spell(src) + " " + m.spell(dst)
				ap = func() { m.rename(src, dst) }
			} else {
				o = oFail
				t = m.pick([]string{"mv " + m.spell(m.fresh("missing")) + " " + m.spell(m.fresh("x")), "mv " + m.spell(src), "! mv " + m.spell(src) + " " + m.spell(m.fresh("x"))})
			}
		case 5: // rm
			w = "rm"
			if wantOK {
				var victim string
				switch {
				case len(files) > 0 && m.r.Intn(3) != 0:
					victim = m.pick(files)
				case len(dirs) > 0 && m.r.Intn(2) == 0:
					victim = m.pick(dirs)
					if victim == m.cwd || strings.HasPrefix(m.cwd, victim+"/") {
						continue
					}
				default:
					victim = m.fresh("never")
				}
				t = "rm " + m.spell(victim)
				ap = func() { m.removeAll(victim) }
				if len(files) > 1 && m.r.Intn(2) == 0 {
					second := m.pick(files)
					if second != victim && !strings.HasPrefix(second, victim+"/") {
						t += " " + m.spell(second)
						ap = func() { m.removeAll(victim); m.removeAll(second) }
					}
				}
			} else {
				t, o = m.pick([]string{"! rm x", "rm"}), oFail
			}
		case 6, 7: // exists
			w = "exists"
			all := append(append([]string{}, files...), dirs...)
			missing := m.fresh("ghost")
			switch m.r.Intn(5) {
			case 4:
				// a path that runs through a regular file: it cannot be examined at all (not a directory
				// rather than no such file), so it does not exist for either form of the command
				if len(files) == 0 {
					continue
				}
				through := m.spell(m.pick(files)) + "/" + m.pick([]string{"child", "a/b", "x.txt"})
				if wantOK {
					t = "! exists " + through
				} else {
					t, o = "exists "+through, oFail
				}
			case 0:
				if len(all) == 0 {
					continue
				}
				t = "exists " + m.spell(m.pick(all))
				if !wantOK {
					t = "exists " + m.spell(m.pick(all)) + " " + m.spell(missing)
					o = oFail
				}
			case 1:
				t = "! exists " + m.spell(missing)
				if !wantOK {
					if len(all) == 0 {
						continue
					}
					t = "! exists " + m.spell(missing) + " " + m.spell(m.pick(all))
					o = oFail
				}
			case 2:
				if len(all) == 0 {
					continue
				}
				p := m.pick(all)
				ro := m.fs[p].mode != 0 && m.fs[p].mode&0o222 == 0
				if m.fs[p].mode == 0 {
					ro = false
				}
				t = "exists -readonly " + m.spell(p)
				if ro != wantOK {
					continue
				}
				if !ro {
					o = oFail
				}
			default:
				if wantOK {
					continue
				}
				t, o = "exists", oFail
			}
		case 8: // chmod
			w = "chmod"
			if len(files) == 0 {
				continue
			}
			p := m.pick(files)
			if wantOK {
				mode := []os.FileMode{0o444, 0o644, 0o600, 0o555, 0o400}[m.r.Intn(5)]
				ps := []string{p}
				if len(files) > 1 && m.r.Intn(2) == 0 {
					ps = append(ps, m.pick(files))
				}
				var sp []string
				for _, x := range ps {
					sp = append(sp, m.spell(x))
				}
				t = fmt.Sprintf("chmod %o %s", mode, strings.Join(sp, " "))
				ap = func() {
					for _, x := range ps {
						m.fs[x].mode = mode
					}
				}
			} else {
				o = oFail
				t = m.pick([]string{"chmod 999 " + m.spell(p), "chmod 1000 " + m.spell(p), "! chmod 644 " + m.spell(p), "chmod 644 " + m.spell(m.fresh("missing")), "chmod 644", "chmod rw " + m.spell(p)})
			}
		case 9, 10, 11: // cmp / cmpenv
			w = "cmp"
			if len(files) < 1 {
				continue
			}
			a := m.pick(files)
			// find b equal / different
			var same, diff []string
			for _, f := range files {
				if f == a {
					continue
				}
				if m.fs[f].data == m.fs[a].data {
					same = append(same, f)
				} else {
					diff = append(diff, f)
				}
			}
			neg := m.r.Intn(3) == 0
			wantEq := wantOK != neg
			var b string
			if wantEq {
				if len(same) == 0 {
					continue
				}
				b = m.pick(same)
			} else {
				if len(diff) == 0 {
					continue
				}
				b = m.pick(diff)
			}
			cmd := "cmp"
			if m.r.Intn(4) == 0 && !strings.Contains(m.fs[b].data, "$") {
				cmd = "cmpenv"
			}
			t = cmd + " " + m.spell(a) + " " + m.spell(b)
			if neg {
				t = "! " + t
			}
			if !wantOK {
				o = oFail
				if m.r.Intn(6) == 0 {
					sa := m.spell(a)
					t = "cmp " + sa + " " + sa // same name: refused
				}
			}
		case 12: // cmp stdout
			w = "cmp-stdout"
			if !m.stdoutKnown || len(files) == 0 {
				continue
			}
			var eq []string
			for _, f := range files {
				if m.fs[f].data == m.stdout {
					eq = append(eq, f)
				}
			}
			if wantOK {
				if len(eq) == 0 {
					continue
				}
				t = "cmp stdout " + m.spell(m.pick(eq))
			} else {
				f := m.pick(files)
				if m.fs[f].data == m.stdout {
					continue
				}
				t, o = "cmp stdout "+m.spell(f), oFail
			}
		case 30: // cmpenv stdout template
			w = "cmpenv"
			if !m.stdoutKnown || len(m.tpls) == 0 {
				continue
			}
			tp := m.pick(m.tpls)
			n := m.fs[tp]
			if n == nil || n.kind != kFile {
				continue
			}
			eq := expandSimple(n.data, m.env) == m.stdout
			neg := m.r.Intn(4) == 0
			if (eq != neg) != wantOK {
				continue
			}
			t = "cmpenv stdout " + m.spell(tp)
			if neg {
				t = "! " + t
			}
			if !wantOK {
				o = oFail
			}
		case 13: // env
			w = "env"
			if wantOK {
				k, v := m.pick([]string{"V1", "V2", "GREETING"}), m.pick([]string{"one", "two words", "3"})
				t = "env " + q(k+"="+v)
				ap = func() { m.env[k] = v }
				if m.r.Intn(5) == 0 {
					t, ap = "env", nil
				}
			} else {
				t, o = "! env A=1", oFail
			}
		case 14, 15, 16, 17: // exec foreground
			w = "exec"
			bare := !m.explicitExec && !m.cli && m.r.Intn(3) == 0
			prefix := "exec vhelper"
			if bare {
				prefix = "vhelper"
			}
			neg := m.r.Intn(3) == 0
			sub := m.r.Intn(8)
			var so, se string
			code := 0
			var fx func()
			switch sub {
			case 0, 1:
				tx := words[m.r.Intn(len(words))]
				if len(m.tpls) > 0 && m.r.Intn(3) == 0 {
					if n := m.fs[m.pick(m.tpls)]; n != nil {
						tx = strings.TrimSuffix(expandSimple(n.data, m.env), "\n")
					}
				}
				t = prefix + " out " + q(tx)
				so = tx + "\n"
			case 2:
				tx := words[m.r.Intn(len(words))]
				t = prefix + " err " + q(tx)
				se = tx + "\n"
			case 3:
				code = 1 + m.r.Intn(3)
				tx := words[m.r.Intn(len(words))]
				t = fmt.Sprintf("%s exit %d %s", prefix, code, q(tx))
				so = tx + "\n"
			case 4:
				f := m.fresh("t")
				if path.Dir(f) != "." && path.Dir(f) != m.cwd && m.cwd != "" {
					continue
				}
				// the child creates the file relative to ITS working directory
				name := fmt.Sprintf("made%d", m.nameCtr)
				full := path.Join(m.cwd, name)
				t = prefix + " touch " + name
				fx = func() { m.fs[full] = &node{kind: kFile, data: ""} }
			case 5:
				t = prefix + " pwd"
				so = "$WORKDIR/" + m.cwd + "\n" // checked only through patterns below
				if m.cwd == "" {
					so = "$WORKDIR\n"
				}
			case 6:
				t = prefix + " cat"
				so = m.stdin
			default:
				o1, e1 := words[m.r.Intn(len(words))], words[m.r.Intn(len(words))]
				t = prefix + " outerr " + q(o1) + " " + q(e1)
				so, se = o1+"\n", e1+"\n"
			}
			succeeds := code == 0
			lineOK := succeeds != neg
			if lineOK != wantOK {
				continue
			}
			if neg {
				t = "! " + t
			}
			if !lineOK {
				o = oFail
			}
			pwd := sub == 5
			ap = func() {
				m.stdout, m.stderr, m.stdin = so, se, ""
				m.stdoutKnown = !pwd
				if fx != nil {
					fx()
				}
			}
			if o == oFail {
				// a failing exec still records its output
				fap := ap
				ap = fap
			}
		case 18: // exec of a missing program / unknown command / RequireExplicitExec
			w = "exec-missing"
			switch m.r.Intn(4) {
			case 0:
				if !m.noMoreBg && m.r.Intn(3) == 0 {
					// the same in the background: a program that cannot be started fails the line at
					// once (no job is registered, nothing is left for wait)
					amp := m.pick([]string{"&", "&nostart&"})
					if wantOK {
						t = "! exec no-such-program-xyz " + amp
					} else {
						t, o = "exec no-such-program-xyz "+amp, oFail
					}
					ap = func() { m.stdoutKnown = false }
					break
				}
				if wantOK {
					t = "! exec no-such-program-xyz"
					ap = func() { m.stdout, m.stderr, m.stdin, m.stdoutKnown = "", "", "", true }
				} else {
					t, o = "exec no-such-program-xyz", oFail
					ap = func() { m.stdout, m.stderr, m.stdin, m.stdoutKnown = "", "", "", true }
				}
			case 1:
				if wantOK {
					continue
				}
				t, o = m.pick([]string{"frobnicate a b", "exec", "mkdirr x", "! frobnicate", "!", "exec &"}), oFail
			case 2:
				if wantOK || !m.explicitExec {
					continue
				}
				t, o = "vhelper out x", oFail
			default:
				if wantOK {
					continue
				}
				t, o = "exec vhelper out 'unterminated", oFail
			}
		case 19, 20, 31, 32, 33: // stdout / stderr pattern
			w = "match"
			if !m.stdoutKnown {
				continue
			}
			which := m.pick([]string{"stdout", "stderr"})
			text := m.stdout
			if which == "stderr" {
				text = m.stderr
			}
			neg := m.r.Intn(3) == 0
			if !wantOK && m.r.Intn(5) == 0 {
				// malformed: more words than a pattern (the typical slip is an unquoted blank) - a usage
				// failure whatever the first word alone would have matched
				if pm, ok := m.pattern(text, true); ok {
					extraWord := m.pick([]string{"extra", "'second pattern'", "."})
					switch m.r.Intn(3) {
					case 0:
						t = which + " " + q(pm) + " " + extraWord
					case 1:
						pn, ok2 := m.pattern(text, false)
						if !ok2 {
							continue
						}
						t = "! " + which + " " + q(pn) + " " + extraWord
					default:
						t = which + " -count=1 " + q(pm) + " " + extraWord
					}
					o = oFail
					break
				}
			}
			if !wantOK && !neg && m.r.Intn(3) != 0 {
				// the pattern matches, but not the demanded number of times
				p, ok := m.pattern(text, true)
				if !ok {
					continue
				}
				_, n := matches(p, text)
				if n > 1 && m.r.Intn(2) == 0 {
					n--
				} else {
					n++
				}
				t, o = fmt.Sprintf("%s -count=%d %s", which, n, q(p)), oFail
				break
			}
			wantMatch := wantOK != neg
			p, ok := m.pattern(text, wantMatch)
			if !ok {
				continue
			}
			t = which + " " + q(p)
			if neg {
				t = "! " + t
			} else if wantOK && m.r.Intn(2) == 0 {
				_, n := matches(p, text)
				t = fmt.Sprintf("%s -count=%d %s", which, n, q(p))
			}
			if !wantOK {
				o = oFail
			}
		case 21: // grep
			w = "grep"
			if len(files) == 0 {
				continue
			}
			f := m.pick(files)
			neg := m.r.Intn(3) == 0
			wantMatch := wantOK != neg
			p, ok := m.pattern(m.fs[f].data, wantMatch)
			if !ok {
				continue
			}
			t = "grep " + q(p) + " " + m.spell(f)
			if neg {
				t = "! " + t
			} else if wantMatch {
				_, n := matches(p, m.fs[f].data)
				if wantOK && m.r.Intn(2) == 0 {
					t = fmt.Sprintf("grep -count=%d %s %s", n, q(p), m.spell(f))
				}
			}
			if !wantOK && !neg && m.r.Intn(2) == 0 {
				if pm, ok := m.pattern(m.fs[f].data, true); ok {
					_, n := matches(pm, m.fs[f].data)
					if n > 1 && m.r.Intn(2) == 0 {
						n--
					} else {
						n++
					}
					t, o = fmt.Sprintf("grep -count=%d %s %s", n, q(pm), m.spell(f)), oFail
					break
				}
			}
			if !wantOK {
				o = oFail
				if m.r.Intn(5) == 0 {
					t = m.pick([]string{"grep " + q(p), "grep . " + m.spell(f) + " " + m.spell(f), "grep . " + m.spell(f) + " extra", "grep " + q(p) + " " + m.spell(m.fresh("missing")), "! grep -count=1 a " + m.spell(f), "grep '(' " + m.spell(f), "grep -count=0 . " + m.spell(f)})
				}
			}
		case 22: // stdin + cat
			w = "stdin"
			if len(files) == 0 {
				continue
			}
			f := m.pick(files)
			if wantOK {
				t = "stdin " + m.spell(f)
				data := m.fs[f].data
				ap = func() { m.stdin = data }
			} else {
				t, o = m.pick([]string{"stdin " + m.spell(m.fresh("missing")), "! stdin " + m.spell(f), "stdin"}), oFail
			}
		case 23: // symlink
			w = "symlink"
			if wantOK {
				l := m.fresh("l")
				tgt := "dangling-target"
				if len(files) > 0 && m.r.Intn(2) == 0 {
					f := m.pick(files)
					if path.Dir(f) == path.Dir(l) || (path.Dir(f) == "." && path.Dir(l) == ".") {
						tgt = path.Base(f)
					}
				}
				t = "symlink " + m.spell(l) + " -> " + tgt
				ap = func() { m.fs[l] = &node{kind: kLink, target: tgt} }
			} else {
				o = oFail
				t = m.pick([]string{"symlink a b", "symlink a -> ", "! symlink a -> b", "symlink a => b"})
				if t == "symlink a -> " {
					t = "symlink a ->"
				}
			}
		case 24: // unquote / unix2dos
			w = "rewrite"
			if len(files) == 0 {
				continue
			}
			f := m.pick(files)
			d := m.fs[f].data
			if m.r.Intn(2) == 0 {
				quoted := len(d) > 0 && d[0] == '>' && d[len(d)-1] == '\n'
				t = "unquote " + m.spell(f)
				switch {
				case wantOK && (quoted || d == ""):
					nd := strings.TrimPrefix(strings.ReplaceAll(d, "\n>", "\n"), ">")
					ap = func() { m.fs[f].data = nd }
				case !wantOK && !quoted && d != "":
					o = oFail
				default:
					continue
				}
			} else {
				if !wantOK {
					t, o = m.pick([]string{"unix2dos", "! unix2dos " + m.spell(f), "unix2dos " + m.spell(m.fresh("missing"))}), oFail
					break
				}
				t = "unix2dos " + m.spell(f)
				var sb strings.Builder
				rest := d
				for len(rest) > 0 {
					i := strings.IndexByte(rest, '\n')
					var l string
					if i < 0 {
						l, rest = rest, ""
					} else {
						l, rest = rest[:i], rest[i+1:]
					}
					l = strings.TrimSuffix(l, "\r")
					sb.WriteString(l + "\r\n")
				}
				nd := sb.String()
				ap = func() { m.fs[f].data = nd }
			}
		case 25: // background start
			w = "bg-start"
			if m.noMoreBg {
				continue
			}
			if !wantOK {
				// duplicate name
				var named []string
				for _, b := range m.bg {
					if b.name != "" {
						named = append(named, b.name)
					}
				}
				if len(named) == 0 {
					continue
				}
				t, o = "exec vhelper exit 0 &"+m.pick(named)+"&", oFail
				break
			}
			if len(m.bg) >= 3 {
				continue
			}
			m.nameCtr++
			b := bgProc{}
			if m.r.Intn(2) == 0 {
				b.name = fmt.Sprintf("job%d", m.nameCtr)
			}
			spec := "&"
			if b.name != "" {
				spec = "&" + b.name + "&"
			}
			b.neg = m.r.Intn(3) == 0
			if m.r.Intn(2) == 0 {
				b.hang = true
				t = "exec vhelper hang " + spec
			} else {
				b.code = m.r.Intn(2) * (1 + m.r.Intn(3))
				tx := words[m.r.Intn(len(words))]
				b.out = tx + "\n"
				t = fmt.Sprintf("exec vhelper exit %d %s %s", b.code, q(tx), spec)
			}
			if b.neg {
				t = "! " + t
			}
			ap = func() {
				m.bg = append(m.bg, b)
				m.stdout, m.stderr, m.stdoutKnown, m.stdin = "", "", true, ""
			}
		case 26: // kill
			w = "kill"
			if m.noMoreBg {
				continue
			}
			if !wantOK {
				t, o = m.pick([]string{"kill -FOO", "! kill", "kill nosuchjob", "kill -INT nosuchjob", "kill a b c"}), oFail
				break
			}
			var hanging []int
			for i, b := range m.bg {
				if b.hang && !b.killed {
					hanging = append(hanging, i)
				}
			}
			// killing a process that already exited is timing dependent: only when every live job hangs
			allHang := true
			for _, b := range m.bg {
				if !b.hang || b.killed {
					allHang = false
				}
			}
			sig := m.pick([]string{"", "-KILL ", "-INT "})
			if len(hanging) > 0 && m.r.Intn(2) == 0 {
				i := hanging[m.r.Intn(len(hanging))]
				if m.bg[i].name == "" {
					continue
				}
				t = "kill " + sig + m.bg[i].name
				ap = func() { m.bg[i].killed = true }
			} else if allHang {
				t = strings.TrimSpace("kill " + sig)
				ap = func() {
					for i := range m.bg {
						m.bg[i].killed = true
					}
				}
			} else {
				continue
			}
		case 27: // wait
			w = "wait"
			if m.noMoreBg {
				continue
			}
			// only wait for processes that end by themselves or were killed
			for _, b := range m.bg {
				if b.hang && !b.killed {
					continue retry
				}
			}
			{
				if m.r.Intn(3) == 0 && len(m.bg) > 0 {
					// wait for one named job
					var idx []int
					for i, b := range m.bg {
						if b.name != "" {
							idx = append(idx, i)
						}
					}
					if len(idx) == 0 {
						continue
					}
					i := idx[m.r.Intn(len(idx))]
					b := m.bg[i]
					success := !b.hang && b.code == 0
					ok := success != b.neg
					if ok != wantOK {
						continue
					}
					t = "wait " + b.name
					if !ok {
						o = oFail
					}
					ap = func() {
						m.stdout, m.stderr = b.out, ""
						m.stdoutKnown = !b.hang
						if ok {
							m.bg = append(m.bg[:i:i], m.bg[i+1:]...)
						}
					}
					break
				}
				if !wantOK && len(m.bg) == 0 {
					t, o = m.pick([]string{"wait nosuchjob", "! wait", "wait a b"}), oFail
					break
				}
				// wait for all: the first job with an unexpected status fails the line
				ok := true
				known := true
				var outs []string
				for _, b := range m.bg {
					success := !b.hang && b.code == 0
					if success == b.neg {
						ok = false
						break
					}
					if b.hang {
						known = false
					}
					outs = append(outs, b.out)
				}
				if ok != wantOK {
					continue
				}
				t = "wait"
				if !ok {
					o = oFail
					// on failure the remaining bookkeeping is unspecified: end the use of background state
					ap = func() { m.bg = nil; m.stdoutKnown = false; m.bgBroken() }
					break
				}
				ap = func() {
					m.stdout, m.stderr = strings.Join(outs, ""), ""
					m.stdoutKnown = known
					m.bg = nil
				}
			}
		case 28: // custom commands
			w = "custom"
			if !m.customCmds {
				continue
			}
			if wantOK {
				tx := words[m.r.Intn(len(words))]
				switch m.r.Intn(3) {
				case 0:
					t = "okcmd " + q(tx)
				case 1:
					t = "! mustneg"
				default:
					t = "say " + q(tx)
					ap = func() { m.stdout, m.stderr, m.stdoutKnown = tx+"\n", "", true }
				}
			} else {
				t, o = m.pick([]string{"failcmd boom", "mustneg", "! failcmd boom"}), oFail
			}
		default: // stop / skip
			w = "end"
			if m.noMoreBg {
				continue
			}
			if len(m.bg) > 0 {
				// skip with jobs outstanding: they are interrupted and waited for, and their status
				// expectations still count - a hanging job dies of the signal, which is a failure: fine
				// for "! exec ... &", a failing line for "exec ... &". (Jobs that end by themselves
				// would race with the signal: only when every job hangs.)
				allHang, bad := true, false
				for _, b := range m.bg {
					if !b.hang {
						allHang = false
					}
					if !b.neg {
						bad = true
					}
				}
				if !allHang || bad == wantOK || m.r.Intn(3) != 0 {
					continue
				}
				t = m.pick([]string{"skip", "skip 'jobs outstanding'"})
				if bad {
					o = oFail
					ap = func() { m.bg = nil; m.stdoutKnown = false; m.bgBroken() }
				} else {
					o = oSkip
				}
				break
			}
			if !wantOK {
				continue
			}
			if m.r.Intn(4) != 0 {
				continue
			}
			if m.r.Intn(2) == 0 {
				t, o = m.pick([]string{"stop", "stop 'enough'"}), oStop
			} else {
				t, o = m.pick([]string{"skip", "skip 'not today'"}), oSkip
			}
		}
		if t == "" {
			continue
		}
		if (o == oOK || o == oStop || o == oSkip) != wantOK {
			continue
		}
		return t, o, w, ap
	}
	// fallback that is always available
	if wantOK {
		return "env FALLBACK=1", oOK, "env", func() { m.env["FALLBACK"] = "1" }
	}
	return "frobnicate", oFail, "unknown", nil
}

// prepare queues a multi-line sequence whose lines all must succeed.
func (m *model) prepare() {
	files := m.files()
	if !m.cli && !m.shadowed && m.r.Intn(3) == 0 {
		// Directories named like programs, in a PATH element that comes first: looking a program
		// up must pass over them (exec finds the real one; [exec:prog] stays false when only a
		// directory has that name).
		m.shadowed = true
		d := fmt.Sprintf("shadow%d", m.r.Intn(1000))
		prog := fmt.Sprintf("zzprog%d", m.r.Intn(1000))
		msg := fmt.Sprintf("shadow-ok-%d", m.r.Intn(1000))
		m.queue = append(m.queue,
			queued{"mkdir $WORK/" + d + "/vhelper $WORK/" + d + "/" + prog, "mkdir", func() { m.mkdirAll(d + "/vhelper"); m.mkdirAll(d + "/" + prog) }},
			queued{"env PATH=$WORK/" + d + "${:}$PATH", "env", nil},
			queued{"exec vhelper out " + msg, "exec", func() { m.stdout, m.stderr, m.stdin, m.stdoutKnown = msg+"\n", "", "", true }},
			queued{"stdout " + msg, "match", nil},
			queued{"[exec:" + prog + "] exists no-such-file-behind-a-false-condition", "cond-false", nil},
			queued{"[!exec:" + prog + "] exec vhelper out " + msg + "2", "exec", func() { m.stdout, m.stderr, m.stdin, m.stdoutKnown = msg+"2\n", "", "", true }},
			queued{"stdout " + msg + "2", "match", nil},
		)
		return
	}
	switch m.r.Intn(3) {
	case 0: // stdin is consumed by exactly one exec
		if len(files) == 0 {
			return
		}
		f := m.pick(files)
		data := m.fs[f].data
		if data == "" {
			return
		}
		sp := m.spell(f)
		m.queue = append(m.queue,
			queued{"stdin " + sp, "stdin", func() { m.stdin = data }},
			queued{"exec vhelper cat", "exec", func() { m.stdout, m.stderr, m.stdin, m.stdoutKnown = data, "", "", true }},
			queued{"cmp stdout " + sp, "cmp-stdout", nil},
			queued{"exec vhelper cat", "exec", func() { m.stdout, m.stderr, m.stdin, m.stdoutKnown = "", "", "", true }},
			queued{"! stdout .", "match", nil},
		)
	case 1: // outputs of background jobs are concatenated in start order
		a, b := "first"+fmt.Sprint(m.r.Intn(100)), "second"+fmt.Sprint(m.r.Intn(100))
		m.queue = append(m.queue,
			queued{"exec vhelper exit 0 " + a + " &", "bg-start", func() { m.startBg(bgProc{out: a + "\n"}) }},
			queued{"exec vhelper exit 0 " + b + " &", "bg-start", func() { m.startBg(bgProc{out: b + "\n"}) }},
			queued{"wait", "wait", func() { m.stdout, m.stderr, m.stdoutKnown, m.stdin = a+"\n"+b+"\n", "", true, ""; m.bg = nil }},
			queued{"stdout '^" + a + "\\n" + b + "$'", "match", nil},
			queued{"! stderr .", "match", nil},
		)
	default: // negated background job that fails, named wait
		m.nameCtr++
		n := fmt.Sprintf("neg%d", m.nameCtr)
		m.queue = append(m.queue,
			queued{"! exec vhelper exit 3 oops &" + n + "&", "bg-start", func() { m.startBg(bgProc{name: n, neg: true, code: 3, out: "oops\n"}) }},
			queued{"wait " + n, "wait", func() {
				m.stdout, m.stderr, m.stdoutKnown = "oops\n", "", true
				for i := range m.bg {
					if m.bg[i].name == n {
						m.bg = append(m.bg[:i:i], m.bg[i+1:]...)
						break
					}
				}
			}},
			queued{"stdout oops", "match", nil},
		)
	}
}

func (m *model) startBg(b bgProc) {
	m.bg = append(m.bg, b)
	m.stdout, m.stderr, m.stdoutKnown, m.stdin = "", "", true, ""
}

// bgBroken marks that background bookkeeping after a failed wait is not modelled:
// the generator must not use background commands any more in this script.
func (m *model) bgBroken() { m.noMoreBg = true }

// cond wraps a line in [condition] prefixes. Returns the new text and whether the command still runs.
func (m *model) cond(t string) (string, bool, outcome) {
	type c struct {
		s   string
		val int // 1 true, 0 false, -1 error
	}
	cs := []c{{"linux", 1}, {"!linux", 0}, {"windows", 0}, {"!windows", 1}, {"amd64", 1}, {"unix", 1}, {"gc", 1}, {"gccgo", 0},
		{"go1.20", 1}, {"go1.999", 0}, {"!go1.999", 1}, {"exec:vhelper", 1}, {"exec:no-such-prog-xyz", 0}, {"!exec:no-such-prog-xyz", 1}}
	if m.customCond {
		cs = append(cs, c{"always", 1}, c{"never", 0}, c{"!never", 1}, c{"conderr", -1})
		fl := map[bool]int{true: 1, false: 0}
		cs = append(cs, c{"flavour", fl[m.flavour]}, c{"!flavour", fl[!m.flavour]}, c{"flavour", fl[m.flavour]})
	} else if !m.cli {
		cs = append(cs, c{"nosuchcondition", -1})
	}
	if m.cli {
		// the standalone command runs with a minimal PATH
		var f []c
		for _, x := range cs {
			if !strings.Contains(x.s, "exec:") {
				f = append(f, x)
			}
		}
		cs = f
	}
	n := 1 + m.r.Intn(2)
	runs := true
	prefix := ""
	for i := 0; i < n; i++ {
		x := cs[m.r.Intn(len(cs))]
		prefix += "[" + x.s + "] "
		if x.val == -1 {
			return prefix + t, false, oFail
		}
		if x.val == 0 {
			runs = false
			break // the rest of the line is not looked at
		}
	}
	return prefix + t, runs, oOK
}
