# the real standalone testscript command, from the tree under test
REPO="${VERIF_REPO:-/repo}"
(cd "$REPO" && go build -o "$B/testscript-cli" ./cmd/testscript) || return 1
