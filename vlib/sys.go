package vlib

import (
	"os"
	"sync/atomic"
	"unsafe"

	"golang.org/x/sys/unix"
)

// MonoNow returns CLOCK_MONOTONIC in nanoseconds: one clock for all processes
// on the machine, so histories recorded in different processes can be merged.
func MonoNow() int64 {
	var ts unix.Timespec
	unix.ClockGettime(unix.CLOCK_MONOTONIC, &ts)
	return ts.Sec*1e9 + ts.Nsec
}

// SharedWords is an array of uint64 in a file mapped MAP_SHARED, usable with
// sync/atomic from several processes at once.
type SharedWords struct {
	mem []byte
	n   int
}

// OpenSharedWords maps (creating if needed) n words backed by path.
func OpenSharedWords(path string, n int) (*SharedWords, error) {
	f, err := os.OpenFile(path, os.O_RDWR|os.O_CREATE, 0o666)
	if err != nil {
		return nil, err
	}
	defer f.Close()
	size := int64(n * 8)
	if st, err := f.Stat(); err == nil && st.Size() < size {
		if err := f.Truncate(size); err != nil {
			return nil, err
		}
	}
	mem, err := unix.Mmap(int(f.Fd()), 0, int(size), unix.PROT_READ|unix.PROT_WRITE, unix.MAP_SHARED)
	if err != nil {
		return nil, err
	}
	return &SharedWords{mem: mem, n: n}, nil
}

func (s *SharedWords) ptr(i int) *uint64 {
	return (*uint64)(unsafe.Pointer(&s.mem[i*8]))
}

func (s *SharedWords) Add(i int, d uint64) uint64 { return atomic.AddUint64(s.ptr(i), d) }
func (s *SharedWords) Load(i int) uint64          { return atomic.LoadUint64(s.ptr(i)) }
func (s *SharedWords) Store(i int, v uint64)      { atomic.StoreUint64(s.ptr(i), v) }
func (s *SharedWords) CAS(i int, o, n uint64) bool {
	return atomic.CompareAndSwapUint64(s.ptr(i), o, n)
}
func (s *SharedWords) Close() error { return unix.Munmap(s.mem) }
