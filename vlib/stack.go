package vlib

import "runtime/debug"

func debugStack() []byte { return debug.Stack() }
