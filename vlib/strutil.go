package vlib

import (
	"fmt"
	"strings"
)

func splitLines(s string) []string { return strings.Split(s, "\n") }
func trimSpace(s string) string    { return strings.TrimSpace(s) }
func containsRepoFunc(l string) bool {
	return strings.HasPrefix(l, "github.com/rogpeppe/go-internal/")
}

// Guarded returns a private copy of b that has spare capacity filled with guard
// bytes, and a function that reports (as a non-empty description) whether the
// copy's bytes or the memory behind its end have changed since: a function
// that only reads its []byte argument must leave both alone.
func Guarded(b []byte) (arg []byte, changed func() string) {
	const guard = 8
	buf := make([]byte, len(b)+guard)
	copy(buf, b)
	for i := len(b); i < len(buf); i++ {
		buf[i] = 0xA5
	}
	n := len(b)
	return buf[:n], func() string {
		if string(buf[:n]) != string(b) {
			return "the argument's bytes were modified: now " + Q(buf[:n])
		}
		for i := n; i < len(buf); i++ {
			if buf[i] != 0xA5 {
				return fmt.Sprintf("byte %d behind the end of the argument (spare capacity, owned by the caller) was overwritten with %#x", i-n, buf[i])
			}
		}
		return ""
	}
}
