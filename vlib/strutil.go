package vlib

import "strings"

func splitLines(s string) []string { return strings.Split(s, "\n") }
func trimSpace(s string) string    { return strings.TrimSpace(s) }
func containsRepoFunc(l string) bool {
	return strings.HasPrefix(l, "github.com/rogpeppe/go-internal/")
}
