package vlib

import (
	"bytes"
	"fmt"
	"os"
	"os/exec"
	"regexp"
	"strings"
	"time"
)

// StraceSet is the set of syscalls that are traced (and can be injected).
const StraceSet = "openat,newfstatat,fstat,read,write,pread64,pwrite64,close,ftruncate,utimensat,unlinkat,lseek,flock,fsync,renameat,renameat2,mkdirat"

// Sys is one syscall of the traced (main) thread.
type Sys struct {
	Name     string
	Line     string
	Ordinal  int  // 1-based count of calls with this name since process start
	Injected bool // strace marked it (INJECTED)
}

// StraceResult is the outcome of one traced run.
type StraceResult struct {
	Stdout   string
	Killed   bool // +++ killed by SIGKILL +++
	ExitCode int
	All      []Sys // whole trace
	Begin    int   // index in All of the BEGIN marker (-1 if absent)
	End      int   // index of the END marker (-1 if absent)
	TimedOut bool
}

var sysLine = regexp.MustCompile(`^([a-z0-9_]+)\(`)

// RunStrace runs argv under strace (main thread only) with an optional
// injection expression such as "write:error=ENOSPC:when=3".
func RunStrace(logPath string, inject string, env []string, argv ...string) (*StraceResult, error) {
	args := []string{"-o", logPath, "-qq", "-e", "trace=" + StraceSet}
	if inject != "" {
		args = append(args, "-e", "inject="+inject)
	}
	args = append(args, argv...)
	cmd := exec.Command("strace", args...)
	cmd.Env = append(os.Environ(), "GOMAXPROCS=1", "GODEBUG=asyncpreemptoff=1")
	cmd.Env = append(cmd.Env, env...)
	var out bytes.Buffer
	cmd.Stdout = &out
	cmd.Stderr = &out
	if err := cmd.Start(); err != nil {
		return nil, err
	}
	done := make(chan error, 1)
	go func() { done <- cmd.Wait() }()
	res := &StraceResult{Begin: -1, End: -1}
	select {
	case err := <-done:
		if ee, ok := err.(*exec.ExitError); ok {
			res.ExitCode = ee.ExitCode()
		} else if err != nil {
			return nil, err
		}
	case <-time.After(60 * time.Second):
		cmd.Process.Kill()
		<-done
		res.TimedOut = true
	}
	res.Stdout = out.String()
	b, err := os.ReadFile(logPath)
	if err != nil {
		return nil, err
	}
	counts := map[string]int{}
	for _, l := range strings.Split(string(b), "\n") {
		if strings.HasPrefix(l, "+++ killed by SIGKILL") {
			res.Killed = true
			continue
		}
		m := sysLine.FindStringSubmatch(l)
		if m == nil {
			continue
		}
		counts[m[1]]++
		s := Sys{Name: m[1], Line: l, Ordinal: counts[m[1]], Injected: strings.Contains(l, "(INJECTED)")}
		if strings.Contains(l, "/VERIF_MARK_BEGIN") {
			res.Begin = len(res.All)
		}
		if strings.Contains(l, "/VERIF_MARK_END") {
			res.End = len(res.All)
		}
		res.All = append(res.All, s)
	}
	return res, nil
}

// Region returns the syscalls strictly between the markers.
func (r *StraceResult) Region() []Sys {
	if r.Begin < 0 {
		return nil
	}
	end := r.End
	if end < 0 {
		end = len(r.All)
	}
	return r.All[r.Begin+1 : end]
}

func (s Sys) String() string {
	l := s.Line
	if len(l) > 110 {
		l = l[:110] + "..."
	}
	return fmt.Sprintf("%s#%d %s", s.Name, s.Ordinal, l)
}
