package vlib

import (
	"fmt"
	"os"
	"os/exec"
	"path/filepath"
	"regexp"
	"strconv"
	"strings"
	"time"
)

// FuzzFail is called by a check's report function when it runs inside a native fuzz target.
var FuzzFail func(msg string)

var failingInput = regexp.MustCompile(`Failing input written to (\S+)`)

// GoFuzz runs `go test -fuzz` on a fuzz target that lives next to a check (same package) for the given
// time, as an additional input generator of the thorough tier. It returns the arguments of every failing
// input the fuzzer wrote (each a list of byte strings), so that the caller can re-run them through its
// deterministic oracle; the corpus file is removed afterwards (the replay file keeps the input).
// ok=false means the fuzzing run itself could not be carried out (reported by the caller as a note only).
func GoFuzz(pkgDir, target string, dur time.Duration) (inputs [][][]byte, execs string, ok bool) {
	src := os.Getenv("VERIF_SRC")
	if src == "" {
		src = VerifDir
	}
	args := []string{"test", "-tags", "verif"}
	if mf := os.Getenv("VERIF_MODFLAG"); mf != "" {
		args = append(args, strings.Fields(mf)...)
	}
	args = append(args, "-run", "^$", "-fuzz", "^"+target+"$", "-fuzztime", fmt.Sprint(dur), "./"+pkgDir)
	cmd := exec.Command("go", args...)
	cmd.Dir = src
	cmd.Env = append(os.Environ(), "GOFLAGS=-mod=mod", "GOPROXY=off", "GOSUMDB=off", "GOTOOLCHAIN=local")
	out, err := cmd.CombinedOutput()
	txt := string(out)
	for _, l := range strings.Split(txt, "\n") {
		if strings.Contains(l, "execs:") {
			execs = strings.TrimSpace(l)
		}
	}
	if err == nil {
		return nil, execs, true
	}
	ms := failingInput.FindAllStringSubmatch(txt, -1)
	if len(ms) == 0 {
		return nil, tailText(txt, 400), false
	}
	for _, m := range ms {
		path := filepath.Join(src, pkgDir, m[1])
		b, rerr := os.ReadFile(path)
		if rerr != nil {
			continue
		}
		var argsOut [][]byte
		for _, l := range strings.Split(string(b), "\n") {
			l = strings.TrimSpace(l)
			if strings.HasPrefix(l, "[]byte(") && strings.HasSuffix(l, ")") {
				if s, uerr := strconv.Unquote(l[len("[]byte(") : len(l)-1]); uerr == nil {
					argsOut = append(argsOut, []byte(s))
				}
			}
		}
		inputs = append(inputs, argsOut)
		os.Remove(path)
	}
	return inputs, execs, true
}

func tailText(s string, n int) string {
	if len(s) > n {
		return s[len(s)-n:]
	}
	return s
}
