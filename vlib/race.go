package vlib

import (
	"os"
	"path/filepath"
	"strings"
)

// RaceEnv returns the GORACE setting used for exploration runs of
// race-instrumented worker processes: keep going after a report, log to files.
func RaceEnv(logPrefix string) string {
	return "GORACE=halt_on_error=0 exitcode=0 log_path=" + logPrefix
}

// RaceReports reads every log file with the given prefix and returns the
// report blocks, split into those that name code of the module under test
// and the rest (harness-only).
func RaceReports(logPrefix string) (inRepo, other []string) {
	files, _ := filepath.Glob(logPrefix + "*")
	for _, f := range files {
		b, err := os.ReadFile(f)
		if err != nil {
			continue
		}
		blocks := strings.Split(string(b), "==================")
		for _, blk := range blocks {
			if !strings.Contains(blk, "WARNING: DATA RACE") {
				continue
			}
			if strings.Contains(blk, "github.com/rogpeppe/go-internal/") {
				inRepo = append(inRepo, blk)
			} else {
				other = append(other, blk)
			}
		}
	}
	return
}

// ReportRaces turns race-detector reports into verdicts: a report naming the
// module under test is a violation (de-duplicated by its first two repo
// frames), a report in harness code only is inconclusive.
func (r *Run) ReportRaces(logPrefix string) {
	in, other := RaceReports(logPrefix)
	seen := map[string]bool{}
	for _, blk := range in {
		var frames []string
		for _, l := range strings.Split(blk, "\n") {
			l = strings.TrimSpace(l)
			if strings.HasPrefix(l, "github.com/rogpeppe/go-internal/") {
				if i := strings.LastIndex(l, "("); i > 0 {
					l = l[:i]
				}
				frames = append(frames, l)
				if len(frames) == 2 {
					break
				}
			}
		}
		key := "data-race " + strings.Join(frames, " vs ")
		if seen[key] {
			continue
		}
		seen[key] = true
		if len(blk) > 6000 {
			blk = blk[:6000]
		}
		r.Violation(key, "the Go race detector reported a data race in the module under test: "+strings.Join(frames, " vs "), map[string]any{"race_report": blk})
	}
	r.Set("race_reports_in_module", len(in))
	r.Set("race_reports_harness_only", len(other))
	if len(other) > 0 {
		msg := other[0]
		if len(msg) > 1500 {
			msg = msg[:1500]
		}
		r.Inconclusive("race detector report without any frame of the module under test (harness fault): " + msg)
	}
}
