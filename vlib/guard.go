package vlib

import (
	"fmt"
	"os"
	"sync"
	"time"
)

// Abort writes the evidence for what has been observed so far and ends the
// process with the verdict's exit status (used when a goroutine of the
// workload is stuck and cannot be cancelled).
func (r *Run) Abort() {
	os.Exit(r.finish())
}

// StallGuard turns non-termination of a pure function on a small input into
// a witness: each worker announces the case it is evaluating; a case that has
// not finished after limit (orders of magnitude above its normal cost) is
// reported as a violation together with its input, and the run is aborted.
type StallGuard struct {
	mu    sync.Mutex
	slots []guardSlot
}

type guardSlot struct {
	active bool
	since  time.Time
	input  []byte
}

func NewStallGuard(r *Run, workers int, limit time.Duration, kind string, mk func(input []byte) any) *StallGuard {
	g := &StallGuard{slots: make([]guardSlot, workers)}
	go func() {
		for {
			time.Sleep(time.Second)
			g.mu.Lock()
			for i := range g.slots {
				s := &g.slots[i]
				if s.active && time.Since(s.since) > limit {
					in := append([]byte{}, s.input...)
					g.mu.Unlock()
					r.Violation(fmt.Sprintf("%s input=%s", kind, Q(in)),
						fmt.Sprintf("%s: call has not returned after %v on a %d-byte input %s", kind, limit, len(in), Q(in)), mk(in))
					r.Abort()
				}
			}
			g.mu.Unlock()
		}
	}()
	return g
}

func (g *StallGuard) Begin(w int, input []byte) {
	g.mu.Lock()
	g.slots[w] = guardSlot{active: true, since: time.Now(), input: input}
	g.mu.Unlock()
}

func (g *StallGuard) End(w int) {
	g.mu.Lock()
	g.slots[w].active = false
	g.mu.Unlock()
}
