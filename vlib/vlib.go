// Package vlib is the shared runtime of the /verif checks: tiers and seeds,
// evidence files, replay files, known-findings matching, verdicts, and the
// supervisor that runs the real check in a child process under a watchdog.
package vlib

import (
	"bufio"
	"crypto/sha256"
	"encoding/hex"
	"encoding/json"
	"fmt"
	"hash/fnv"
	"math/rand"
	"os"
	"os/exec"
	"os/signal"
	"path/filepath"
	"sort"
	"strconv"
	"strings"
	"sync"
	"sync/atomic"
	"syscall"
	"time"
)

// VerifDir is the root of the verification tree.
var VerifDir = func() string {
	if d := os.Getenv("VERIF_DIR"); d != "" {
		return d
	}
	return "/verif"
}()

// RepoDir is the tree under test (VERIF_REPO redirects to a scratch copy
// when validating monitors against mutants).
var RepoDir = func() string {
	if d := os.Getenv("VERIF_REPO"); d != "" {
		return d
	}
	return "/repo"
}()

const (
	ExitHeld         = 0
	ExitViolation    = 1
	ExitInconclusive = 3
)

type violation struct {
	Key  string `json:"key"`
	What string `json:"what"`
	Path string `json:"replay"`
}

// Run collects what one check execution observed.
type Run struct {
	ID    string
	Level string
	Tier  string
	Seed  int64

	start time.Time

	mu            sync.Mutex
	evals         int64
	distinct      map[uint64]struct{}
	distinctBulk  int64
	rule          string
	samples       []any
	maxSamples    int
	counters      map[string]int64
	extra         map[string]any
	assumptions   []string
	violations    []violation
	seenKeys      map[string]bool
	knownHit      map[string]bool
	inconclusive  []string
	inconclusiveN int
	exhaustive    bool
	open          map[string]string // key -> text of open known findings for this property
}

// Quick reports whether the run is the quick tier.
func (r *Run) Quick() bool { return r.Tier != "thorough" }

// Pick returns q in the quick tier and t in the thorough tier.
func (r *Run) Pick(q, t int) int {
	if r.Quick() {
		return q
	}
	return t
}

// Rand returns a PRNG that is a pure function of (seed, stream name).
func (r *Run) Rand(stream string) *rand.Rand {
	h := fnv.New64a()
	fmt.Fprintf(h, "%d|%s|%s", r.Seed, r.ID, stream)
	return rand.New(rand.NewSource(int64(h.Sum64())))
}

// SubSeed derives a deterministic 63-bit seed for a named sub-stream.
func (r *Run) SubSeed(stream string) int64 {
	h := fnv.New64a()
	fmt.Fprintf(h, "%d|%s|%s", r.Seed, r.ID, stream)
	return int64(h.Sum64() >> 1)
}

func (r *Run) Eval(n int64) {
	if r == nil { // checks' relation functions are also called from native fuzz targets, without a Run
		return
	}
	atomic.AddInt64(&r.evals, n)
}

// Distinct records the signature of a non-trivial case.
func (r *Run) Distinct(sig string) {
	h := fnv.New64a()
	h.Write([]byte(sig))
	k := h.Sum64()
	r.mu.Lock()
	r.distinct[k] = struct{}{}
	r.mu.Unlock()
}

// DistinctBytes is Distinct for byte signatures.
func (r *Run) DistinctBytes(sig []byte) {
	h := fnv.New64a()
	h.Write(sig)
	k := h.Sum64()
	r.mu.Lock()
	r.distinct[k] = struct{}{}
	r.mu.Unlock()
}

// DistinctBulk adds n cases that are distinct by construction (enumeration)
// and were counted as non-trivial by the caller.
func (r *Run) DistinctBulk(n int64) { atomic.AddInt64(&r.distinctBulk, n) }

func (r *Run) Rule(s string)       { r.mu.Lock(); r.rule = s; r.mu.Unlock() }
func (r *Run) Exhaustive(b bool)   { r.mu.Lock(); r.exhaustive = b; r.mu.Unlock() }
func (r *Run) Assume(s string)     { r.mu.Lock(); r.assumptions = append(r.assumptions, s); r.mu.Unlock() }
func (r *Run) Set(k string, v any) { r.mu.Lock(); r.extra[k] = v; r.mu.Unlock() }

// Sample keeps up to a fixed number of concrete cases for the evidence file.
func (r *Run) Sample(v any) {
	r.mu.Lock()
	if len(r.samples) < r.maxSamples {
		r.samples = append(r.samples, v)
	}
	r.mu.Unlock()
}

func (r *Run) Count(name string, n int64) {
	if r == nil {
		return
	}
	r.mu.Lock()
	r.counters[name] += n
	r.mu.Unlock()
}

func (r *Run) Max(name string, v int64) {
	r.mu.Lock()
	if v > r.counters[name] {
		r.counters[name] = v
	}
	r.mu.Unlock()
}

func (r *Run) Counter(name string) int64 {
	r.mu.Lock()
	defer r.mu.Unlock()
	return r.counters[name]
}

// Violation reports a refutation of the property. key is a stable identifier
// of the failing input / call site / history class (used to match the
// known-findings file and to de-duplicate); what is one line of explanation;
// replay is any JSON-encodable description sufficient to reproduce.
func (r *Run) Violation(key, what string, replay any) {
	key = strings.Join(strings.Fields(key), "_")
	r.mu.Lock()
	if r.seenKeys[key] {
		r.mu.Unlock()
		return
	}
	r.seenKeys[key] = true
	if txt, ok := r.open[key]; ok {
		r.knownHit[key] = true
		r.mu.Unlock()
		fmt.Printf("KNOWN-FINDING: property=%s %s\n", r.ID, txt)
		return
	}
	nviol := len(r.violations)
	r.mu.Unlock()
	path := ""
	if nviol < 25 {
		sum := sha256.Sum256([]byte(key))
		path = filepath.Join(VerifDir, "replays", fmt.Sprintf("%s-%s.json", r.ID, hex.EncodeToString(sum[:6])))
		os.MkdirAll(filepath.Dir(path), 0o755)
		doc := map[string]any{
			"property": r.ID, "key": key, "what": what, "tier": r.Tier, "seed": r.Seed, "case": replay,
		}
		b, err := json.MarshalIndent(doc, "", " ")
		if err != nil {
			b = []byte(fmt.Sprintf("{\"property\":%q,\"key\":%q,\"what\":%q,\"marshal_error\":%q}", r.ID, key, what, err.Error()))
		}
		os.WriteFile(path, b, 0o644)
	} else {
		path = filepath.Join(VerifDir, "replays", r.ID+"-overflow.json")
	}
	r.mu.Lock()
	r.violations = append(r.violations, violation{key, what, path})
	r.mu.Unlock()
	fmt.Printf("VIOLATION property=%s replay=%s\n", r.ID, path)
	fmt.Printf("  key=%s\n  %s\n", key, what)
}

// Violations returns the number of (unlisted) violations so far.
func (r *Run) Violations() int {
	r.mu.Lock()
	defer r.mu.Unlock()
	return len(r.violations)
}

// Inconclusive records that part of the run could not decide.
func (r *Run) Inconclusive(msg string) {
	if r == nil {
		return
	}
	r.mu.Lock()
	n := len(r.inconclusive)
	if n < 50 {
		r.inconclusive = append(r.inconclusive, msg)
	}
	r.inconclusiveN++
	r.mu.Unlock()
	if n < 10 {
		fmt.Printf("INCONCLUSIVE property=%s %s\n", r.ID, msg)
	}
}

func loadOpenFindings(id string) map[string]string {
	m := map[string]string{}
	f, err := os.Open(filepath.Join(VerifDir, "known_findings.txt"))
	if err != nil {
		return m
	}
	defer f.Close()
	sc := bufio.NewScanner(f)
	sc.Buffer(make([]byte, 1<<20), 1<<20)
	for sc.Scan() {
		line := strings.TrimSpace(sc.Text())
		if !strings.HasPrefix(line, "open:") {
			continue
		}
		fields := strings.Fields(strings.TrimPrefix(line, "open:"))
		var prop, key string
		var rest []string
		for _, f := range fields {
			switch {
			case strings.HasPrefix(f, "property=") && prop == "":
				prop = strings.TrimPrefix(f, "property=")
			case strings.HasPrefix(f, "key=") && key == "":
				key = strings.TrimPrefix(f, "key=")
			default:
				rest = append(rest, f)
			}
		}
		if prop == id && key != "" {
			m[key] = "key=" + key + " " + strings.Join(rest, " ")
		}
	}
	return m
}

func newRun(id, level string) *Run {
	tier := os.Getenv("VERIF_TIER")
	for _, a := range os.Args[1:] {
		if a == "quick" || a == "thorough" {
			tier = a
		}
	}
	if tier != "thorough" {
		tier = "quick"
	}
	seed := int64(1)
	if s := os.Getenv("VERIF_SEED"); s != "" {
		if v, err := strconv.ParseInt(s, 10, 64); err == nil {
			seed = v
		}
	}
	// --replay <file>: re-run with the seed and tier recorded in the replay file (case lists are a pure
	// function of (seed, tier), so the recorded case is generated and judged again)
	if p := ReplayPath(); p != "" {
		if b, err := os.ReadFile(p); err == nil {
			var doc struct {
				Seed *int64 `json:"seed"`
				Tier string `json:"tier"`
			}
			if json.Unmarshal(b, &doc) == nil {
				if doc.Seed != nil {
					seed = *doc.Seed
				}
				if doc.Tier == "quick" || doc.Tier == "thorough" {
					tier = doc.Tier
				}
			}
		}
	}
	return &Run{
		ID: id, Level: level, Tier: tier, Seed: seed, start: time.Now(),
		distinct: map[uint64]struct{}{}, counters: map[string]int64{}, extra: map[string]any{},
		seenKeys: map[string]bool{}, knownHit: map[string]bool{}, maxSamples: 6,
		open: loadOpenFindings(id),
	}
}

func (r *Run) writeEvidence(status string) {
	r.mu.Lock()
	defer r.mu.Unlock()
	cov := map[string]any{}
	for k, v := range r.counters {
		cov[k] = v
	}
	for k, v := range r.extra {
		cov[k] = v
	}
	cov["evaluations"] = atomic.LoadInt64(&r.evals)
	cov["distinct_nontrivial"] = int64(len(r.distinct)) + atomic.LoadInt64(&r.distinctBulk)
	cov["rule"] = r.rule
	samples := r.samples
	if samples == nil {
		samples = []any{}
	}
	cov["samples"] = samples
	if r.exhaustive {
		cov["exhaustive"] = true
	}
	cov["status"] = status
	if len(r.inconclusive) > 0 {
		cov["inconclusive"] = r.inconclusive
	}
	var kh []string
	for k := range r.knownHit {
		kh = append(kh, k)
	}
	sort.Strings(kh)
	if len(kh) > 0 {
		cov["known_findings_hit"] = kh
	}
	if len(r.violations) > 0 {
		cov["violation_list"] = r.violations
	}
	ass := r.assumptions
	if ass == nil {
		ass = []string{}
	}
	doc := map[string]any{
		"property_id": r.ID, "tier": r.Tier, "seed": r.Seed, "level": r.Level,
		"coverage": cov, "assumptions": ass,
		"wall_s":     float64(int(time.Since(r.start).Seconds()*100)) / 100,
		"violations": len(r.violations),
	}
	b, err := json.MarshalIndent(doc, "", " ")
	if err != nil {
		fmt.Fprintf(os.Stderr, "vlib: cannot marshal evidence: %v\n", err)
		// retry without samples
		cov["samples"] = []any{fmt.Sprintf("unmarshalable: %v", err)}
		b, _ = json.MarshalIndent(doc, "", " ")
	}
	dir := filepath.Join(VerifDir, "evidence")
	os.MkdirAll(dir, 0o755)
	tmp := filepath.Join(dir, "."+r.ID+".tmp")
	os.WriteFile(tmp, append(b, '\n'), 0o644)
	os.Rename(tmp, filepath.Join(dir, r.ID+".json"))
}

// Main is the entry point of every check. The process started by run.sh is a
// supervisor: it re-executes itself as a child whose stdout/stderr go to
// files, under a generous watchdog. A child that dies in an unexpected way
// (fatal error, signal) is analysed: a Go fatal error / panic whose trace
// names code of the module under test is a violation, anything else is
// inconclusive. The child runs body and writes the evidence.
func Main(id, level string, watchdog time.Duration, body func(r *Run)) {
	if IsChild(id) {
		os.Exit(RunChild(id, level, body))
	}
	os.Exit(supervise(id, level, watchdog))
}

// IsChild reports whether this process is the child that runs the check body.
func IsChild(id string) bool { return os.Getenv("VERIF_CHILD") == id }

// RunChild runs body, writes the evidence and returns the exit status
// (for checks that must return through another framework's Main).
func RunChild(id, level string, body func(r *Run)) int {
	r := newRun(id, level)
	func() {
		defer func() {
			if e := recover(); e != nil {
				// A panic escaping the harness itself is a harness fault
				// unless the check body converted it to a violation.
				r.Inconclusive(fmt.Sprintf("harness panic: %v", e))
				panic(e)
			}
		}()
		body(r)
	}()
	return r.finish()
}

// Supervise is the supervisor half of Main.
func Supervise(id, level string, watchdog time.Duration) int { return supervise(id, level, watchdog) }

func (r *Run) finish() int {
	status := "held"
	code := ExitHeld
	if len(r.violations) > 0 {
		status, code = "violated", ExitViolation
	} else if len(r.inconclusive) > 0 {
		status, code = "inconclusive", ExitInconclusive
	}
	total := int64(len(r.distinct)) + r.distinctBulk
	if code == ExitHeld && (r.evals < 1 || total < 2) {
		fmt.Printf("INCONCLUSIVE property=%s observed nothing (evaluations=%d distinct=%d)\n", r.ID, r.evals, total)
		status, code = "inconclusive", ExitInconclusive
	}
	r.writeEvidence(status)
	fmt.Printf("%s %s tier=%s seed=%d evaluations=%d distinct_nontrivial=%d violations=%d known=%d wall=%.1fs status=%s\n",
		r.ID, r.Level, r.Tier, r.Seed, r.evals, total, len(r.violations), len(r.knownHit), time.Since(r.start).Seconds(), status)
	return code
}

// unignoreSignals: a process started as a background job of a non-interactive shell (cmd &),
// under nohup, or by some CI runners inherits SIGINT / SIGQUIT as *ignored*, and the Go runtime
// and every process it starts keep them ignored. testscript stops background and timed-out
// commands with exactly these signals, so under such a parent the code under test could not
// stop anything (observed: every C04 batch whose script ends with jobs outstanding hung).
// Installing a handler here makes the dispositions "caught" in this process, and caught signals
// are reset to their default action in every process started from it.
func unignoreSignals() {
	var sigs []os.Signal
	for _, sg := range []syscall.Signal{syscall.SIGINT, syscall.SIGQUIT} {
		if signal.Ignored(sg) {
			sigs = append(sigs, sg)
		}
	}
	if len(sigs) == 0 {
		return
	}
	c := make(chan os.Signal, 1)
	signal.Notify(c, sigs...)
	go func() {
		// this process itself keeps ignoring them, as its parent intended
		for range c {
		}
	}()
}

func supervise(id, level string, watchdog time.Duration) int {
	unignoreSignals()
	if r := os.Getenv("VERIF_WATCHDOG_SCALE"); r != "" {
		if f, err := strconv.ParseFloat(r, 64); err == nil && f > 0 {
			watchdog = time.Duration(float64(watchdog) * f)
		}
	}
	tier := "quick"
	for _, a := range os.Args[1:] {
		if a == "thorough" {
			tier = a
		}
	}
	if tier == "thorough" {
		watchdog *= 12
	}
	scratch, err := os.MkdirTemp("", "verif-"+id+"-")
	if err != nil {
		fmt.Printf("INCONCLUSIVE property=%s cannot create scratch dir: %v\n", id, err)
		return ExitInconclusive
	}
	defer os.RemoveAll(scratch)
	outPath := filepath.Join(scratch, "stdout")
	errPath := filepath.Join(VerifDir, ".build", id, "child.stderr")
	os.MkdirAll(filepath.Dir(errPath), 0o755)
	outF, _ := os.Create(outPath)
	errF, _ := os.Create(errPath)
	work := filepath.Join(scratch, "work")
	os.MkdirAll(work, 0o777)
	os.Chmod(scratch, 0o755)
	os.Chmod(work, 0o777)
	cmd := exec.Command(os.Args[0], os.Args[1:]...)
	// race-instrumented children (and the race-instrumented helpers they start, which inherit it through
	// testscript's GORACE pass-through): keep going after a report, log to files, no 1 s sleep at exit
	cmd.Env = append(os.Environ(), "VERIF_CHILD="+id, "VERIF_SCRATCH="+work,
		"GORACE=halt_on_error=0 exitcode=0 atexit_sleep_ms=0 log_path="+filepath.Join(work, "race"))
	cmd.Stdout = outF
	cmd.Stderr = errF
	cmd.SysProcAttr = &syscall.SysProcAttr{Setpgid: true}
	if err := cmd.Start(); err != nil {
		fmt.Printf("INCONCLUSIVE property=%s cannot start child: %v\n", id, err)
		return ExitInconclusive
	}
	done := make(chan error, 1)
	go func() { done <- cmd.Wait() }()
	// stream child's stdout while it runs
	stop := make(chan struct{})
	var wg sync.WaitGroup
	wg.Add(1)
	go func() {
		defer wg.Done()
		f, _ := os.Open(outPath)
		defer f.Close()
		buf := make([]byte, 64<<10)
		for {
			n, _ := f.Read(buf)
			if n > 0 {
				os.Stdout.Write(buf[:n])
				continue
			}
			select {
			case <-stop:
				// final drain
				for {
					n, _ := f.Read(buf)
					if n == 0 {
						return
					}
					os.Stdout.Write(buf[:n])
				}
			case <-time.After(100 * time.Millisecond):
			}
		}
	}()
	timedOut := false
	var werr error
	select {
	case werr = <-done:
	case <-time.After(watchdog):
		timedOut = true
		cmd.Process.Signal(syscall.SIGQUIT)
		select {
		case werr = <-done:
		case <-time.After(20 * time.Second):
			syscall.Kill(-cmd.Process.Pid, syscall.SIGKILL)
			werr = <-done
		}
	}
	// make sure nothing of the child's process group survives
	syscall.Kill(-cmd.Process.Pid, syscall.SIGKILL)
	close(stop)
	wg.Wait()
	outF.Close()
	errF.Close()
	code := 0
	if werr != nil {
		if ee, ok := werr.(*exec.ExitError); ok {
			code = ee.ExitCode()
		} else {
			code = -1
		}
	}
	if timedOut {
		fmt.Printf("INCONCLUSIVE property=%s watchdog (%v) fired; goroutine dump in %s\n", id, watchdog, errPath)
		tailFile(errPath, 40)
		writeFallbackEvidence(id, level, tier, "inconclusive: watchdog")
		return ExitInconclusive
	}
	switch code {
	case ExitHeld, ExitViolation, ExitInconclusive:
		if code != ExitHeld {
			tailFile(errPath, 30)
		}
		return code
	}
	// Unexpected death of the child.
	b, _ := os.ReadFile(errPath)
	txt := string(b)
	inRepo := strings.Contains(txt, "github.com/rogpeppe/go-internal/")
	fatal := strings.Contains(txt, "fatal error:") || strings.Contains(txt, "panic:") || strings.Contains(txt, "WARNING: DATA RACE")
	tailFile(errPath, 60)
	if fatal && inRepo && !strings.Contains(txt, "harness panic") {
		keep := filepath.Join(VerifDir, "replays", id+"-crash.txt")
		os.MkdirAll(filepath.Dir(keep), 0o755)
		os.WriteFile(keep, b, 0o644)
		fmt.Printf("VIOLATION property=%s replay=%s\n", id, keep)
		fmt.Printf("  child died (status %d) with a fatal error / panic whose trace names the module under test\n", code)
		writeFallbackEvidence(id, level, tier, "violated: child crashed")
		return ExitViolation
	}
	// keep what the child left (the next run overwrites child.stderr)
	keepDir := filepath.Join(VerifDir, ".build", id, fmt.Sprintf("death-%d", time.Now().UnixNano()))
	if os.MkdirAll(keepDir, 0o755) == nil {
		os.WriteFile(filepath.Join(keepDir, "child.stderr"), b, 0o644)
		os.WriteFile(filepath.Join(keepDir, "wait-error.txt"), []byte(fmt.Sprintf("%v\nstate: %v\n", werr, cmd.ProcessState)), 0o644)
		errPath = filepath.Join(keepDir, "child.stderr")
	}
	fmt.Printf("INCONCLUSIVE property=%s child died with status %d (%v; stderr kept as %s)\n", id, code, cmd.ProcessState, errPath)
	writeFallbackEvidence(id, level, tier, "inconclusive: child died")
	return ExitInconclusive
}

func tailFile(path string, n int) {
	b, err := os.ReadFile(path)
	if err != nil || len(b) == 0 {
		return
	}
	lines := strings.Split(strings.TrimRight(string(b), "\n"), "\n")
	if len(lines) > n {
		lines = lines[len(lines)-n:]
	}
	fmt.Fprintln(os.Stderr, "---- child stderr (tail) ----")
	for _, l := range lines {
		fmt.Fprintln(os.Stderr, l)
	}
}

// writeFallbackEvidence leaves a schema-valid file that says the run decided
// nothing (so that a stale file from an earlier run is never mistaken for
// this run's evidence).
func writeFallbackEvidence(id, level, tier, status string) {
	seed := int64(1)
	if s := os.Getenv("VERIF_SEED"); s != "" {
		if v, err := strconv.ParseInt(s, 10, 64); err == nil {
			seed = v
		}
	}
	doc := map[string]any{
		"property_id": id, "tier": tier, "seed": seed, "level": "other",
		"coverage":   map[string]any{"explanation": status, "status": status},
		"wall_s":     0.0,
		"violations": 0,
	}
	b, _ := json.MarshalIndent(doc, "", " ")
	dir := filepath.Join(VerifDir, "evidence")
	os.MkdirAll(dir, 0o755)
	os.WriteFile(filepath.Join(dir, id+".json"), append(b, '\n'), 0o644)
}

// Scratch returns the private scratch directory of this run (removed by the
// supervisor when the child has exited).
func Scratch() string {
	if d := os.Getenv("VERIF_SCRATCH"); d != "" {
		return d
	}
	d, _ := os.MkdirTemp("", "verif-scratch-")
	return d
}

// Parallel runs f(i) for i in [0,n) on w goroutines.
func Parallel(n, w int, f func(i int)) {
	if w < 1 {
		w = 1
	}
	var next int64 = -1
	var wg sync.WaitGroup
	for k := 0; k < w; k++ {
		wg.Add(1)
		go func() {
			defer wg.Done()
			for {
				i := int(atomic.AddInt64(&next, 1))
				if i >= n {
					return
				}
				f(i)
			}
		}()
	}
	wg.Wait()
}

// Try runs f and returns the recovered panic value (nil if none) and stack.
func Try(f func()) (pv any, stack string) {
	defer func() {
		if e := recover(); e != nil {
			pv = e
			stack = string(debugStack())
		}
	}()
	f()
	return nil, ""
}

// Q renders bytes for messages and keys.
func Q(b []byte) string {
	if len(b) > 200 {
		return strconv.Quote(string(b[:200])) + fmt.Sprintf("...(%d bytes)", len(b))
	}
	return strconv.Quote(string(b))
}

// PickInts returns q in the quick tier and t in the thorough tier.
func (r *Run) PickInts(q, t []int) []int {
	if r.Quick() {
		return q
	}
	return t
}

// PickDur returns q in the quick tier and t in the thorough tier.
func (r *Run) PickDur(q, t time.Duration) time.Duration {
	if r.Quick() {
		return q
	}
	return t
}
