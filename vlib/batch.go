package vlib

import (
	"os"
	"os/exec"
	"strings"
	"syscall"
	"time"
)

// BatchResult describes how a batch child process ended.
type BatchResult struct {
	ExitCode int
	TimedOut bool   // the watchdog fired and the child was sent SIGQUIT
	Stderr   string // everything the child wrote to stderr (goroutine dump on fatal errors / SIGQUIT)
}

// RunBatch runs a child with stderr redirected to a file (pipes lose the
// goroutine dump) under a watchdog; on expiry the child gets SIGQUIT so that
// the Go runtime prints every goroutine's stack.
func RunBatch(stderrPath string, watchdog time.Duration, env []string, argv ...string) BatchResult {
	f, err := os.Create(stderrPath)
	if err != nil {
		return BatchResult{ExitCode: -1, Stderr: err.Error()}
	}
	defer f.Close()
	cmd := exec.Command(argv[0], argv[1:]...)
	cmd.Env = append(os.Environ(), env...)
	cmd.Stderr = f
	cmd.Stdout = f
	if err := cmd.Start(); err != nil {
		return BatchResult{ExitCode: -1, Stderr: err.Error()}
	}
	done := make(chan error, 1)
	go func() { done <- cmd.Wait() }()
	var res BatchResult
	var werr error
	select {
	case werr = <-done:
	case <-time.After(watchdog):
		res.TimedOut = true
		cmd.Process.Signal(syscall.SIGQUIT)
		select {
		case werr = <-done:
		case <-time.After(30 * time.Second):
			cmd.Process.Kill()
			werr = <-done
		}
	}
	if ee, ok := werr.(*exec.ExitError); ok {
		res.ExitCode = ee.ExitCode()
	} else if werr != nil {
		res.ExitCode = -1
	}
	b, _ := os.ReadFile(stderrPath)
	res.Stderr = string(b)
	return res
}

// DeadlockByRuntime reports whether the Go runtime itself proved a deadlock
// (only non-race builds do this).
func (b BatchResult) DeadlockByRuntime() bool {
	return strings.Contains(b.Stderr, "all goroutines are asleep - deadlock!")
}

// DumpAllParked classifies a SIGQUIT goroutine dump: true if no goroutine is
// running or runnable in user code, i.e. every goroutine is parked on a
// synchronisation primitive (a deadlock witness), false if something could
// still make progress (then a timeout is only inconclusive).
func DumpAllParked(dump string) (parked bool, states map[string]int) {
	states = map[string]int{}
	parked = true
	for _, blk := range strings.Split(dump, "\n\n") {
		blk = strings.TrimSpace(blk)
		if !strings.HasPrefix(blk, "goroutine ") {
			continue
		}
		head := blk[:strings.IndexByte(blk+"\n", '\n')]
		i, j := strings.Index(head, "["), strings.Index(head, "]")
		if i < 0 || j < i {
			continue
		}
		st := head[i+1 : j]
		if k := strings.Index(st, ","); k >= 0 {
			st = st[:k]
		}
		states[st]++
		switch st {
		case "sync.Cond.Wait", "sync.Mutex.Lock", "sync.RWMutex.Lock", "sync.RWMutex.RLock", "semacquire", "sync.WaitGroup.Wait", "chan receive", "chan send", "select", "select (no cases)":
		case "syscall", "GC worker (idle)", "GC sweep wait", "GC scavenge wait", "finalizer wait", "force gc (idle)", "IO wait", "sleep":
			if st == "sleep" || st == "IO wait" {
				parked = false
			}
		case "running", "runnable":
			// the goroutine that handles SIGQUIT shows as running inside the runtime
			if !strings.Contains(blk, "runtime.sigqueue") && !strings.Contains(blk, "os/signal") && !strings.Contains(blk, "runtime/pprof") && strings.Contains(blk, "\n\t/") && !strings.Contains(blk, "runtime.gopark") {
				if strings.Contains(blk, "main.") || strings.Contains(blk, "go-internal") {
					parked = false
				}
			}
		default:
			// unknown state: be conservative
			parked = false
		}
	}
	return
}
