package vlib

import (
	"encoding/json"
	"os"
)

// ReplayPath returns the path given with --replay, or "".
func ReplayPath() string {
	for i, a := range os.Args {
		if a == "--replay" && i+1 < len(os.Args) {
			return os.Args[i+1]
		}
	}
	return ""
}

// LoadReplayCase decodes the "case" member of a replay file into v.
func LoadReplayCase(path string, v any) error {
	b, err := os.ReadFile(path)
	if err != nil {
		return err
	}
	var doc struct {
		Case json.RawMessage `json:"case"`
	}
	if err := json.Unmarshal(b, &doc); err != nil {
		return err
	}
	return json.Unmarshal(doc.Case, v)
}

// RepoFrame extracts the innermost stack frame that lies in the module under
// test from a debug.Stack() dump (for one-line panic reports).
func RepoFrame(stack string) string {
	lines := splitLines(stack)
	for i, l := range lines {
		if containsRepoFunc(l) && i+1 < len(lines) {
			return trimSpace(l) + " " + trimSpace(lines[i+1])
		}
	}
	return "(no frame of the module under test)"
}
